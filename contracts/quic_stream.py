# Sidecar contracts for src/aioquic/quic/stream.py  (R is injected by the loader)

R.field_types(
    "QuicStreamReceiver",
    highest_offset="int",
    is_finished="bool",
    stop_pending="bool",
    _buffer="bytearray",
    _buffer_start="int",
    _final_size="Optional[int]",
    _ranges="RangeSet",
    _stream_id="Optional[int]",
    _stop_error_code="Optional[int]",
)

# Reference model of the receive half (C10): gM is the offset -> byte map of the accepted frames (a later frame
# overwrites the part of it that has not been delivered yet), g_reset records that a reset was accepted.
# Representation invariant RInv ties the reassembly buffer and the received ranges to that model.
R.ghost_field("QuicStreamReceiver", "gM", "map[int,int]")
R.ghost_field("QuicStreamReceiver", "g_reset", "bool")

R.spec(
    """
def rx_window(rx):
    return forall(lambda x: implies(rx._ranges.gview[x], rx._buffer_start <= x and x < rx._buffer_start + len(rx._buffer)))

def rx_bytes(rx):
    return forall(lambda x: implies(rx._ranges.gview[x], at(rx._buffer, x - rx._buffer_start) == rx.gM[x]))
"""
)

R.invariant(
    "QuicStreamReceiver",
    [
        "rs_nonempty_ranges(self._ranges)", "rs_sorted(self._ranges)", "rs_view_sound(self._ranges)", "rs_view_complete(self._ranges)",
        "self._buffer_start >= 0",
        # buffered ranges lie inside the buffer window and hold the model's bytes
        "rx_window(self)",
        "rx_bytes(self)",
        # everything contiguous has been delivered: the byte at the delivery position is never buffered
        "not self._ranges.gview[self._buffer_start]",
        # the buffer window ends at the highest offset seen (bounds the bytes held for reassembly, C07)
        # (after an accepted reset the mark is the final size the peer declared, which may lie beyond the last byte buffered)
        "self._buffer_start + len(self._buffer) <= self.highest_offset",
        "implies(not self.g_reset, self._buffer_start + len(self._buffer) == self.highest_offset)",
        # a final size fixed by a FIN is never above the highest offset seen
        "self.g_reset or self._final_size is None or self._final_size <= self.highest_offset",
        # once every byte up to the final size has been delivered the receive half is finished (the end marker was handed
        # out by the call that got there) - lets the connection recognise a repeated end marker (C01 'at most once')
        "implies(self._final_size is not None and self._buffer_start == self._final_size, self.is_finished)",
        "implies(self.g_reset, self.is_finished)",
    ],
)

# C07 / C10: a reset is refused exactly when it disagrees with an already fixed final size;
# otherwise it fixes the final size and finishes the receive half.
R.contract(
    "QuicStreamReceiver.handle_reset",
    raises={"FinalSizeError": "self._final_size is not None and final_size != self._final_size"},
    modifies=["self._final_size", "self.is_finished", "self.g_reset", "self.highest_offset"],
    ensures=[
        "self._final_size == final_size",
        "self.is_finished",
        # the bytes up to the final size count as received (RFC 9000 4.5): the high-water mark the connection charges
        # flow control against moves to the final size, so that a repeated RESET_STREAM is charged nothing (C07 finding,
        # repaired in /repo: the mark used to stay put and a duplicate was charged again)
        "self.highest_offset == max(old(self.highest_offset), final_size)",
        "self._buffer_start == old(self._buffer_start)",
        "self.g_reset",
    ],
    ghost_exit={"self.g_reset": "True"},
    on_raise={"FinalSizeError": ["self._final_size == old(self._final_size)", "self.is_finished == old(self.is_finished)", "self.g_reset == old(self.g_reset)", "self.highest_offset == old(self.highest_offset)"]},
    prop=["C07", "C10"],
)

# the delivery position (first byte not yet handed to the application)
R.contract("QuicStreamReceiver.starting_offset", returns="int", modifies=[], raises={}, ensures=["result == self._buffer_start"], use_invariant=False, prop=["C07"])

R.field_types("QuicStreamFrame", data="bytes", fin="bool", offset="int")
R.field_types("StreamDataReceived", data="bytes", end_stream="bool", stream_id="Optional[int]")

# _pull_data moves the first buffered range out of the reassembly buffer when (and only when) it starts at the
# delivery position.  Called in the middle of handle_frame, so it states the facts it needs itself.
R.contract(
    "QuicStreamReceiver._pull_data",
    use_invariant=False,
    requires=[
        "rs_nonempty_ranges(self._ranges)", "rs_sorted(self._ranges)", "rs_view_sound(self._ranges)", "rs_view_complete(self._ranges)",
        "rx_window(self)",
    ],
    let={"hit": "len(RL(self._ranges)) > 0 and RL(self._ranges)[0].start == self._buffer_start"},
    modifies=["self._buffer", "self._buffer_start", "self._ranges._RangeSet__ranges", "self._ranges.gview", "self._ranges.gidx"],
    returns="bytes",
    ensures=[
        "rs_nonempty_ranges(self._ranges)", "rs_sorted(self._ranges)", "rs_view_sound(self._ranges)", "rs_view_complete(self._ranges)",
        "implies(not hit, len(result) == 0 and self._buffer_start == old(self._buffer_start) and same(self._buffer, old(self._buffer)) and same(RL(self._ranges), old(RL(self._ranges))) and forall(lambda x: self._ranges.gview[x] == old(self._ranges.gview)[x]))",
        "implies(hit, self._buffer_start == old(RL(self._ranges))[0].stop and len(result) == self._buffer_start - old(self._buffer_start))",
        "implies(hit, forall(lambda k: implies(0 <= k < len(result), at(result, k) == at(old(self._buffer), k))))",
        "implies(hit, len(self._buffer) == len(old(self._buffer)) - len(result) and forall(lambda k: implies(0 <= k < len(self._buffer), at(self._buffer, k) == at(old(self._buffer), k + len(result)))))",
        "implies(hit, forall(lambda x: self._ranges.gview[x] == (old(self._ranges.gview)[x] and not (old(self._buffer_start) <= x < self._buffer_start))))",
        "implies(hit, forall(lambda x: implies(old(self._buffer_start) <= x < self._buffer_start, old(self._ranges.gview)[x])))",
        # afterwards the delivery position is never covered (either the first range was pulled out, or no range starts there
        # - and then none covers it, because ranges are sorted and all lie at or after the position)
        "not self._ranges.gview[self._buffer_start]",
    ],
    prop=["C10"],
)

# C07 / C10: FinalSizeError exactly when data lies beyond, or a FIN disagrees with, an already fixed final size;
# a FIN fixes the final size; highest_offset is the running maximum; the bytes delivered are the model's bytes
# for the maximal contiguous run starting at the old delivery position, and (until a reset is accepted) the end
# marker is reported exactly when the delivery position reaches the final size.
R.contract(
    "QuicStreamReceiver.handle_frame",
    requires=["frame.offset >= 0"],
    let={"fend": "frame.offset + len(frame.data)", "o0": "frame.offset", "d0": "frame.data", "s0": "self._buffer_start", "fin0": "frame.fin",
         "lo": "max(frame.offset, self._buffer_start)"},
    raises={
        "FinalSizeError": "self._final_size is not None and (fend > self._final_size or (frame.fin and fend != self._final_size))"
    },
    modifies=[
        "self._final_size", "self.highest_offset", "self.is_finished", "self._buffer", "self._buffer_start", "self.gM",
        "self._ranges._RangeSet__ranges", "self._ranges.gview", "self._ranges.gidx", "frame.data", "frame.offset",
    ],
    ghost_exit={"self.gM": "amap(lambda x: at(d0, x - o0) if lo <= x < fend else old(self.gM)[x])"},
    # proof hint: the model is updated, and the buffer/ranges re-tied to it, BEFORE the delivered prefix is pulled out
    ghost_at={"data = self._pull_data()": {"self.gM": "amap(lambda x: at(d0, x - o0) if lo <= x < fend else old(self.gM)[x])"}},
    cuts={"data = self._pull_data()": ["rx_window(self)", "rx_bytes(self)", "self._buffer_start == s0", "self._buffer_start + len(self._buffer) <= self.highest_offset", "implies(not self.g_reset, self._buffer_start + len(self._buffer) == self.highest_offset)"]},
    ensures=[
        "implies(fin0, self._final_size == fend)",
        "implies(not fin0, self._final_size == old(self._final_size))",
        "self.highest_offset == max(old(self.highest_offset), fend)",
        "self._buffer_start >= s0",
        "self.g_reset == old(self.g_reset)",
        # bytes: exactly the model's bytes of [old position, new position)
        "implies(result is None, self._buffer_start == s0)",
        "implies(result is not None, len(result.data) == self._buffer_start - s0)",
        "implies(result is not None, forall(lambda k: implies(0 <= k < len(result.data), at(result.data, k) == self.gM[s0 + k])))",
        # maximal contiguous run of (buffered before) or (this frame)
        "forall(lambda x: implies(s0 <= x < self._buffer_start, old(self._ranges.gview)[x] or lo <= x < fend))",
        "forall(lambda x: self._ranges.gview[x] == ((old(self._ranges.gview)[x] or lo <= x < fend) and x >= self._buffer_start))",
        # end marker (until a reset is accepted)
        "implies(not self.g_reset and result is not None, result.end_stream == (self._final_size is not None and self._buffer_start == self._final_size))",
        "implies(not self.g_reset and result is None, not (self._final_size is not None and self._buffer_start == self._final_size))",
        "self.is_finished == (old(self.is_finished) or (result is not None and result.end_stream))",
    ],
    on_raise={
        "FinalSizeError": [
            "self._final_size == old(self._final_size)",
            "self.highest_offset == old(self.highest_offset)",
            "self._buffer_start == old(self._buffer_start)",
            "self.is_finished == old(self.is_finished)",
            "forall(lambda x: self.gM[x] == old(self.gM)[x])",
        ]
    },
    max_paths=6000,
    prop=["C07", "C10"],
)

R.field_types(
    "QuicStreamSender",
    buffer_is_empty="bool",
    highest_offset="int",
    is_finished="bool",
    reset_pending="bool",
    stopped_by_peer="bool",
    _acked="RangeSet",
    _acked_fin="bool",
    _buffer="bytearray",
    _buffer_fin="Optional[int]",
    _buffer_start="int",
    _buffer_stop="int",
    _pending="RangeSet",
    _pending_eof="bool",
    _reset_error_code="Optional[int]",
    _stream_id="Optional[int]",
)

# Reference model of the send half (C10): gW is the offset -> byte map of everything written.
R.ghost_field("QuicStreamSender", "gW", "map[int,int]")

R.invariant(
    "QuicStreamSender",
    [
        "rs_nonempty_ranges(self._pending)", "rs_sorted(self._pending)", "rs_view_sound(self._pending)", "rs_view_complete(self._pending)",
        "rs_nonempty_ranges(self._acked)", "rs_sorted(self._acked)", "rs_view_sound(self._acked)", "rs_view_complete(self._acked)",
        "self._buffer_start >= 0",
        "len(self._buffer) == self._buffer_stop - self._buffer_start",
        "forall(lambda x: implies(self._pending.gview[x], self._buffer_start <= x < self._buffer_stop))",
        # the buffer holds exactly the written bytes that are not yet acknowledged-and-trimmed
        "forall(lambda x: implies(self._buffer_start <= x < self._buffer_stop, at(self._buffer, x - self._buffer_start) == self.gW[x]))",
        # acknowledged-but-not-trimmed ranges lie strictly above the trim position, inside the buffer, and are not pending
        "self._acked is not self._pending",
        "forall(lambda x: implies(self._acked.gview[x], self._buffer_start < x))",
        "forall(lambda x: implies(self._acked.gview[x], x < self._buffer_stop))",
        "forall(lambda x: implies(self._acked.gview[x], not self._pending.gview[x]))",
        "self._buffer_fin is None or self._buffer_fin == self._buffer_stop",
        "not self._pending_eof or self._buffer_fin is not None",
        # after a reset nothing is offered any more
        "self._reset_error_code is None or self.buffer_is_empty",
        "self.highest_offset >= 0",
        "self.highest_offset <= self._buffer_stop",
    ],
)

# C06 / C10: a frame never extends beyond max_offset nor carries more than max_size bytes, it
# starts at the first pending offset, exactly its byte range leaves the pending set, and
# highest_offset is the running maximum of frame ends (so credit is consumed by new data only).
R.contract(
    "QuicStreamSender.get_frame",
    requires=["max_size >= 0"],
    raises={"AssertionError": "self._reset_error_code is not None"},
    returns="Optional[QuicStreamFrame]",
    modifies=[
        "self._pending._RangeSet__ranges", "self._pending.gview", "self._pending.gidx",
        "self._pending_eof", "self.buffer_is_empty", "self.highest_offset",
    ],
    ensures=[
        "implies(result is not None and len(old(RL(self._pending))) > 0, result.offset == old(RL(self._pending))[0].start)",
        "implies(result is not None and len(old(RL(self._pending))) > 0, len(result.data) > 0 and len(result.data) <= max_size)",
        "implies(result is not None and len(old(RL(self._pending))) > 0 and max_offset is not None, result.offset + len(result.data) <= max_offset)",
        "implies(result is not None and len(old(RL(self._pending))) > 0, result.offset + len(result.data) <= old(RL(self._pending))[0].stop)",
        "implies(result is not None and len(old(RL(self._pending))) > 0, forall(lambda x: self._pending.gview[x] == (old(self._pending.gview)[x] and not (result.offset <= x < result.offset + len(result.data)))))",
        "implies(result is not None and len(old(RL(self._pending))) > 0, self.highest_offset == max(old(self.highest_offset), result.offset + len(result.data)))",
        "implies(result is None or len(old(RL(self._pending))) == 0, self.highest_offset == old(self.highest_offset) and forall(lambda x: self._pending.gview[x] == old(self._pending.gview)[x]))",
        "implies(result is not None and len(old(RL(self._pending))) == 0, old(self._pending_eof) and result.fin and len(result.data) == 0 and not self._pending_eof)",
        "self._buffer_stop == old(self._buffer_stop) and self._buffer_start == old(self._buffer_start)",
        # every emitted frame carries exactly the written bytes for its offsets
        "implies(result is not None, forall(lambda k: implies(0 <= k < len(result.data), at(result.data, k) == self.gW[result.offset + k])))",
        # FIN is carried exactly by the frame that ends at the final offset
        "implies(result is not None, result.fin == (self._buffer_fin is not None and result.offset + len(result.data) == self._buffer_fin))",
        "implies(result is not None and result.fin, not self._pending_eof)",
        "implies(result is None or not result.fin, self._pending_eof == old(self._pending_eof))",
    ],
    prop=["C06", "C10"],
)

# C10: write appends exactly [old stop, old stop + len(data)) to the pending set, FIN fixes the
# final offset; refused (AssertionError) exactly after FIN or reset.
R.contract(
    "QuicStreamSender.write",
    params={"data": "bytes"},
    raises={"AssertionError": "self._buffer_fin is not None or self._reset_error_code is not None"},
    modifies=[
        "self._pending._RangeSet__ranges", "self._pending.gview", "self._pending.gidx", "self._pending_eof",
        "self.buffer_is_empty", "self._buffer", "self._buffer_stop", "self._buffer_fin", "self.gW",
    ],
    ghost_exit={"self.gW": "amap(lambda x: at(data, x - old(self._buffer_stop)) if old(self._buffer_stop) <= x < old(self._buffer_stop) + len(data) else old(self.gW)[x])"},
    ensures=[
        "forall(lambda x: self.gW[x] == (at(data, x - old(self._buffer_stop)) if old(self._buffer_stop) <= x < old(self._buffer_stop) + len(data) else old(self.gW)[x]))",
        "implies(len(data) > 0 or end_stream, not self.buffer_is_empty)",
        "self._buffer_stop == old(self._buffer_stop) + len(data)",
        "forall(lambda x: self._pending.gview[x] == (old(self._pending.gview)[x] or old(self._buffer_stop) <= x < self._buffer_stop))",
        "implies(end_stream, self._buffer_fin == self._buffer_stop and self._pending_eof)",
        "implies(not end_stream, self._buffer_fin is None and self._pending_eof == old(self._pending_eof))",
        "self.highest_offset == old(self.highest_offset) and self._buffer_start == old(self._buffer_start)",
    ],
    prop=["C10", "C06"],
)

# C10: nothing is offered after a reset: reset() latches the first error code, get_frame()
# refuses afterwards (its raises clause), the reset frame carries highest_offset as final size.
R.contract(
    "QuicStreamSender.reset",
    modifies=["self._reset_error_code", "self.reset_pending", "self.buffer_is_empty"],
    ensures=[
        "self._reset_error_code is not None",
        "implies(old(self._reset_error_code) is None, self._reset_error_code == error_code and self.reset_pending and self.buffer_is_empty)",
        "implies(old(self._reset_error_code) is not None, self._reset_error_code == old(self._reset_error_code) and self.reset_pending == old(self.reset_pending))",
    ],
    prop=["C10"],
)

R.field_types("QuicResetStreamFrame", error_code="int", final_size="int", stream_id="int")
R.contract(
    "QuicStreamSender.get_reset_frame",
    requires=["self._reset_error_code is not None", "self._stream_id is not None"],
    returns="QuicResetStreamFrame",
    modifies=["self.reset_pending"],
    ensures=["result.final_size == self.highest_offset", "not self.reset_pending", "result.error_code == self._reset_error_code", "result.stream_id == self._stream_id",
             "self.highest_offset == old(self.highest_offset)"],
    prop=["C10", "C06"],
)

R.contract(
    "QuicStreamSender.on_reset_delivery",
    modifies=["self.is_finished", "self.reset_pending"],
    ensures=[
        "implies(delivery == QuicDeliveryState.ACKED, self.is_finished and self.reset_pending == old(self.reset_pending))",
        "implies(delivery != QuicDeliveryState.ACKED, self.reset_pending and self.is_finished == old(self.is_finished))",
    ],
    prop=["C10"],
    frame=True,  # OPAQUE_CALL discharge: see contracts/quic_handlers.py
)


# constructors establish the class invariants (visible-state semantics rests on this)
R.contract(
    "QuicStreamReceiver.__init__",
    ensures=[
        "self.highest_offset == 0 and not self.is_finished and not self.stop_pending",
        "self._buffer_start == 0 and len(self._buffer) == 0 and self._final_size is None",
        "len(RL(self._ranges)) == 0 and forall(lambda x: not self._ranges.gview[x])",
        "not self.g_reset",
    ],
    ghost_exit={"self.g_reset": "False"},
    prop=["C10", "C07"],
)
R.contract(
    "QuicStreamSender.__init__",
    ensures=[
        "self.highest_offset == 0 and self.buffer_is_empty and self.is_finished == (not writable) and not self.reset_pending",
        "self._buffer_start == 0 and self._buffer_stop == 0 and len(self._buffer) == 0 and self._buffer_fin is None",
        "self._reset_error_code is None and not self._pending_eof and not self._acked_fin",
        "len(RL(self._pending)) == 0 and forall(lambda x: not self._pending.gview[x])",
        "len(RL(self._acked)) == 0 and forall(lambda x: not self._acked.gview[x])",
    ],
    prop=["C10", "C06"],
)


# C10 / C01: acknowledgement trims the buffer up to the first unacknowledged byte and completes the send half
# exactly when all bytes and the FIN are acknowledged; a lost range (and a lost FIN) is re-offered.
# Preconditions are the caller discipline of the recovery layer (each in-flight frame is reported once):
# the range lies inside the buffer window and is neither pending nor already acknowledged.
R.contract(
    "QuicStreamSender.on_data_delivery",
    requires=[
        "0 <= start <= stop",
        "implies(self._reset_error_code is None, forall(lambda x: implies(start <= x < stop, self._buffer_start <= x and x < self._buffer_stop and not self._pending.gview[x] and not self._acked.gview[x])))",
    ],
    raises={"AssertionError": "fin and (self._buffer_fin is None or stop != self._buffer_fin)"},
    let={"live": "self._reset_error_code is None", "acked": "delivery == QuicDeliveryState.ACKED"},
    modifies=[
        "self._acked._RangeSet__ranges", "self._acked.gview", "self._acked.gidx", "self._pending._RangeSet__ranges", "self._pending.gview", "self._pending.gidx",
        "self._acked_fin", "self._buffer", "self._buffer_start", "self.is_finished", "self.buffer_is_empty", "self._pending_eof",
    ],
    ensures=[
        "self._buffer_stop == old(self._buffer_stop) and self._buffer_fin == old(self._buffer_fin) and self.highest_offset == old(self.highest_offset)",
        "forall(lambda x: self.gW[x] == old(self.gW)[x])",
        # after a reset nothing changes
        "implies(not live, self._buffer_start == old(self._buffer_start) and self.is_finished == old(self.is_finished) and self._pending_eof == old(self._pending_eof) and self.buffer_is_empty == old(self.buffer_is_empty) and forall(lambda x: self._pending.gview[x] == old(self._pending.gview)[x]))",
        # ACKED: the acknowledged set grows by exactly the range; the buffer is trimmed to the first unacknowledged byte
        "implies(live and acked, self._buffer_start >= old(self._buffer_start) and forall(lambda x: (x < self._buffer_start or self._acked.gview[x]) == (x < old(self._buffer_start) or old(self._acked.gview)[x] or start <= x < stop)))",
        "implies(live and acked, forall(lambda x: self._pending.gview[x] == old(self._pending.gview)[x]) and self._pending_eof == old(self._pending_eof) and self.buffer_is_empty == old(self.buffer_is_empty))",
        "implies(live and acked, self._acked_fin == (old(self._acked_fin) or fin))",
        "implies(live and acked, self.is_finished == (old(self.is_finished) or (self._buffer_fin is not None and self._buffer_start == self._buffer_fin and self._acked_fin)))",
        # LOST: exactly the range becomes pending again, a lost FIN is offered again
        "implies(live and not acked, forall(lambda x: self._pending.gview[x] == (old(self._pending.gview)[x] or start <= x < stop)))",
        "implies(live and not acked, self._pending_eof == (old(self._pending_eof) or fin))",
        "implies(live and not acked and (stop > start or fin), not self.buffer_is_empty)",
        "implies(live and not acked, self._buffer_start == old(self._buffer_start) and self.is_finished == old(self.is_finished) and self._acked_fin == old(self._acked_fin) and forall(lambda x: self._acked.gview[x] == old(self._acked.gview)[x]))",
    ],
    prop=["C10", "C01"],
    frame=True,  # OPAQUE_CALL discharge: see contracts/quic_handlers.py
)

R.contract(
    "QuicStreamSender.next_offset",
    returns="int",
    ensures=["result == (RL(self._pending)[0].start if len(RL(self._pending)) > 0 else self._buffer_stop)", "result >= 0",
             "self.highest_offset == old(self.highest_offset)"],
    prop=["C06"],
)
