# Sidecar contracts for property C05 "network input can never make the QUIC/TLS API raise"   (R is injected)
#
# Exception-effect contracts.  A contract's `raises` is the COMPLETE set of exception types that may escape the function:
# for every other exception the engine generates a `no-escape` obligation per raise site - explicit `raise`, and every
# implicit failure site it models (None dereference -> AttributeError, arithmetic / ordering on None -> TypeError,
# list / bytes index -> IndexError, dict subscript / del -> KeyError, assert -> AssertionError, x // 0, unpacking arity,
# callee outcomes declared by the callee's own contract).  So "raises={A, B}" + errors=[] + everything discharged means:
# from every state satisfying the stated entry conditions and for every argument, the function returns or raises A or B.
#
# Layering of the C05 argument (the lemma in engine/props.py PROPS["C05"] composes them):
#   H   every frame handler in QuicConnection.__frame_handlers raises only QuicConnectionError / BufferReadError /
#       StreamFinishedError                                                                (this file + quic_connection.py + quic_cid.py)
#   P   _payload_received raises only QuicConnectionError: the dispatch goes through the table literal of __init__, read
#       from the source on every run (engine/pyvc/dispatch.py); BufferReadError is converted, StreamFinishedError dropped
#   R   the try/except around _payload_received in receive_datagram catches exactly that type and calls close(); the
#       statements after it run only if no error was raised (is_ack_eliciting / is_probing are bound)
#   E   next_event / get_timer / handle_timer return normally
#
# Entry conditions used below (connection invariants; who establishes them is said at each use):
#   LOG    self._quic_logger is None or context.quic_logger_frames is not None   (receive_datagram@qlog_frames, proved)
#   SPACES the three packet number spaces / crypto streams exist                 (_initialize@spaces, proved; _initialize runs in
#          connect() / on the server's first datagram before any packet can be decrypted)

LOG = "self._quic_logger is None or context.quic_logger_frames is not None"
QCE, BRE, SFE = "QuicConnectionError", "BufferReadError", "StreamFinishedError"
MEM = "MemoryError"  # Buffer(...) allocation failure (declared by the Buffer model): resource exhaustion, not an input-dependent failure

R.field_types(
    "QuicConnection",
    _remote_ack_delay_exponent="int",
    _remote_max_data="int",
    _remote_max_streams_bidi="int",
    _remote_max_streams_uni="int",
    _handshake_confirmed="bool",
    _handshake_complete="bool",
    _handshake_done_pending="bool",
    _close_pending="bool",
    _crypto_retransmitted="bool",
    _crypto_frame_type="Optional[int]",
    _crypto_packet_version="Optional[int]",
    _token_handler="Optional[Callable]",
    _local_challenges="dict[bytes,QuicNetworkPath]",
    _crypto_streams="dict[Epoch,QuicStream]",
    _crypto_buffers="dict[Epoch,Buffer]",
    _state="QuicConnectionState",
    _streams_finished="set[int]",
)
R.field_types("QuicConfiguration", max_datagram_frame_size="Optional[int]")
R.field_types("QuicReceiveContext", epoch="Epoch", time="float", version="Optional[int]", quic_logger_frames="Optional[list[Any]]", network_path="QuicNetworkPath")
R.field_types("QuicNetworkPath", is_validated="bool")
R.field_types("DatagramFrameReceived", data="bytes")
R.field_types("StopSendingReceived", error_code="int", stream_id="int")
R.field_types("ConnectionTerminated", error_code="int", frame_type="Optional[int]", reason_phrase="str")

# application callback (constructor argument token_handler): external code.  ASSUMPTION (listed in the evidence): it
# returns normally - an exception raised by the application's own callback is not "network input making the API raise"
R.contract("QuicConnection._token_handler", callback=True, trusted=True, modifies=[], note="application callback token_handler(token): assumed to return normally and not to re-enter the connection")

_H = dict(prop=["C05"])

# ---------------------------------------------------------------------------------------------- handlers without state
R.contract("QuicConnection._handle_ping_frame", assume_pre=[LOG], raises={}, modifies=["context.quic_logger_frames"],
           ensures=["buf.g_pos == old(buf.g_pos)"], **_H)

R.contract("QuicConnection._handle_data_blocked_frame", assume_pre=[LOG], raises={BRE: None}, modifies=["buf.g_pos", "context.quic_logger_frames"],
           ensures=["buf.g_pos > old(buf.g_pos)"], on_raise={BRE: ["buf.g_pos == old(buf.g_pos)"]}, **_H)

# STREAMS_BLOCKED: FRAME_ENCODING_ERROR exactly for a limit above 2^60
R.contract(
    "QuicConnection._handle_streams_blocked_frame",
    assume_pre=[LOG],
    raises={BRE: None, QCE: None},
    modifies=["buf.g_pos", "context.quic_logger_frames"],
    ensures=["limit <= 1152921504606846976", "buf.g_pos > old(buf.g_pos)"],
    on_raise={QCE: ["exc_error_code == QuicErrorCode.FRAME_ENCODING_ERROR", "limit > 1152921504606846976", "exc_frame_type == frame_type"]},
    **_H,
)

# PADDING: consumes the run of zero bytes; never fails, never moves the position backwards or beyond the payload
R.contract(
    "QuicConnection._handle_padding_frame",
    assume_pre=[LOG],
    raises={},
    modifies=["buf.g_pos", "context.quic_logger_frames"],
    loops={0: dict(invariant=["0 <= _i0 <= len(_seq0)", "pos == old(buf.g_pos) + _i0", "len(_seq0) == buf.g_cap - old(buf.g_pos)", "buf.g_pos == old(buf.g_pos) and buf.g_cap == old(buf.g_cap)"])},
    ensures=["old(buf.g_pos) <= buf.g_pos <= buf.g_cap"],
    **_H,
)

# NEW_TOKEN: PROTOCOL_VIOLATION exactly on a server
R.contract(
    "QuicConnection._handle_new_token_frame",
    assume_pre=[LOG],
    raises={BRE: None, QCE: None},
    modifies=["buf.g_pos", "context.quic_logger_frames"],
    ensures=["self._is_client"],
    on_raise={QCE: ["exc_error_code == QuicErrorCode.PROTOCOL_VIOLATION", "not self._is_client"]},
    **_H,
)

# DATAGRAM: PROTOCOL_VIOLATION exactly when no max_datagram_frame_size was advertised or the frame is not below it;
# an accepted frame produces exactly one event carrying the payload
R.contract(
    "QuicConnection._handle_datagram_frame",
    assume_pre=[LOG],
    raises={BRE: None, QCE: None},
    modifies=["buf.g_pos", "context.quic_logger_frames", "self._events"],
    ensures=["len(self._events) == len(old(self._events)) + 1", "self._configuration.max_datagram_frame_size is not None and buf.g_pos - old(buf.g_pos) < some(self._configuration.max_datagram_frame_size)"],
    on_raise={QCE: ["exc_error_code == QuicErrorCode.PROTOCOL_VIOLATION", "same(self._events, old(self._events))",
                    "self._configuration.max_datagram_frame_size is None or buf.g_pos - old(buf.g_pos) >= some(self._configuration.max_datagram_frame_size)"],
              BRE: ["same(self._events, old(self._events))"]},
    **_H,
)

# PATH_RESPONSE: PROTOCOL_VIOLATION exactly when the 8 bytes match no outstanding challenge (the KeyError of dict.pop is
# converted at the site); a matching response validates that path and forgets the challenge
R.contract(
    "QuicConnection._handle_path_response_frame",
    assume_pre=[LOG],
    raises={BRE: None, QCE: None},
    modifies=["buf.g_pos", "context.quic_logger_frames", "self._local_challenges", "QuicNetworkPath.is_validated[*]"],
    ensures=["data in old(self._local_challenges) and data not in self._local_challenges", "old(self._local_challenges)[data].is_validated"],
    on_raise={QCE: ["exc_error_code == QuicErrorCode.PROTOCOL_VIOLATION", "data not in old(self._local_challenges)", "same(self._local_challenges, old(self._local_challenges))"]},
    **_H,
)

# ---------------------------------------------------------------------------------------------- stream-addressed handlers
SPACES = "Epoch.INITIAL in self._spaces and Epoch.HANDSHAKE in self._spaces and Epoch.ONE_RTT in self._spaces"
CRYPTO_STREAMS = "Epoch.INITIAL in self._crypto_streams and Epoch.HANDSHAKE in self._crypto_streams and Epoch.ONE_RTT in self._crypto_streams"
# every stream waiting in the blocked queues was created for sending by _get_or_create_stream_for_send with a stream id
# (only the crypto streams have stream_id None and they are never queued) - not re-proved here
BLOCKED_IDS = ("forall(lambda k: implies(0 <= k < len(self._streams_blocked_bidi), at(self._streams_blocked_bidi, k).stream_id is not None)) and "
               "forall(lambda k: implies(0 <= k < len(self._streams_blocked_uni), at(self._streams_blocked_uni, k).stream_id is not None))")
_GOCS_MOD = ["self._streams", "self._streams_queue", "Limit.used[*]", "QuicStream.max_stream_data_local[*]", "QuicStream.max_stream_data_remote[*]", "QuicStream.max_stream_data_local_sent[*]",
             "QuicStream.receiver[*]", "QuicStream.sender[*]", "QuicStream.is_blocked[*]", "QuicStream.stream_id[*]", "QuicStreamReceiver.highest_offset[*]"]

# stdlib: bytes.decode(encoding) - a str, or UnicodeDecodeError for bytes that are not valid in that encoding
R.contract("bytes.decode", trusted=True, returns="str", raises={"UnicodeDecodeError": None}, note="stdlib bytes.decode: returns a str or raises UnicodeDecodeError; no side effect")

# MAX_STREAMS: FRAME_ENCODING_ERROR exactly above 2^60; the peer's limit only grows
for _d, _f, _u in (("bidi", "_remote_max_streams_bidi", "False"), ("uni", "_remote_max_streams_uni", "True")):
    R.contract(
        "QuicConnection._handle_max_streams_%s_frame" % _d,
        assume_pre=[LOG, BLOCKED_IDS],
        raises={BRE: None, QCE: None},
        modifies=["buf.g_pos", "context.quic_logger_frames", "self." + _f, "self._streams_blocked_bidi", "self._streams_blocked_uni", "self._streams_blocked_pending", "QuicStream.is_blocked[*]", "QuicStream.max_stream_data_remote[*]"],
        ensures=["max_streams <= 1152921504606846976", "self.%s == max(old(self.%s), max_streams)" % (_f, _f)],
        on_raise={QCE: ["exc_error_code == QuicErrorCode.FRAME_ENCODING_ERROR", "max_streams > 1152921504606846976", "self.%s == old(self.%s)" % (_f, _f)],
                  BRE: ["self.%s == old(self.%s)" % (_f, _f)]},
        **_H,
    )

# MAX_STREAM_DATA / STOP_SENDING / STREAM_DATA_BLOCKED: a frame for a stream whose state was discarded surfaces as
# StreamFinishedError (ignored by the dispatcher); a receive-only / send-only stream or an id beyond the limit as
# QuicConnectionError; nothing else - in particular the stream object handed back is always present
R.contract(
    "QuicConnection._handle_max_stream_data_frame",
    assume_pre=[LOG, "conn_limits_distinct(self)"],
    raises={BRE: None, QCE: None, SFE: None},
    modifies=["buf.g_pos", "context.quic_logger_frames"] + _GOCS_MOD,
    ensures=["stream_id in self._streams and stream == self._streams[stream_id]", "stream.max_stream_data_remote >= max_stream_data"],
    on_raise={QCE: ["exc_error_code == QuicErrorCode.STREAM_STATE_ERROR or exc_error_code == QuicErrorCode.STREAM_LIMIT_ERROR"],
              SFE: ["stream_id in self._streams_finished"]},
    **_H,
)
R.contract(
    "QuicConnection._handle_stop_sending_frame",
    assume_pre=[LOG, "conn_limits_distinct(self)"],
    raises={BRE: None, QCE: None, SFE: None},
    modifies=["buf.g_pos", "context.quic_logger_frames", "self._events", "QuicStreamSender._reset_error_code[*]", "QuicStreamSender.reset_pending[*]", "QuicStreamSender.buffer_is_empty[*]", "QuicStreamSender.stopped_by_peer[*]"] + _GOCS_MOD,
    ensures=["stream_id in self._streams and stream == self._streams[stream_id]", "stream.sender._reset_error_code is not None", "len(self._events) == len(old(self._events)) + 1",
             # C16 (taken from the property): a transport frame of the peer never turns a stream the application could write to
             # into one whose next write trips an assertion - the stopped stream discards writes, every other stream is untouched
             "stream.sender.stopped_by_peer",
             # (stated for an arbitrary stream id gk - a universally quantified ghost parameter - instead of a forall: same meaning, quantifier-free goal)
             "implies(gk in old(self._streams) and pre_existing(old(self._streams)[gk]) and old(q_open(self, gk)), q_open(self, gk))"],
    ghost_params={"gk": "int"},
    on_raise={QCE: ["exc_error_code == QuicErrorCode.STREAM_STATE_ERROR or exc_error_code == QuicErrorCode.STREAM_LIMIT_ERROR", "same(self._events, old(self._events))"],
              SFE: ["stream_id in self._streams_finished", "same(self._events, old(self._events))"]},
    **_H,
)
R.contract(
    "QuicConnection._handle_stream_data_blocked_frame",
    assume_pre=[LOG, "conn_limits_distinct(self)"],
    raises={BRE: None, QCE: None, SFE: None},
    modifies=["buf.g_pos", "context.quic_logger_frames"] + _GOCS_MOD,
    ensures=["stream_id in self._streams"],
    on_raise={QCE: ["exc_error_code == QuicErrorCode.STREAM_STATE_ERROR or exc_error_code == QuicErrorCode.STREAM_LIMIT_ERROR"],
              SFE: ["stream_id in self._streams_finished"]},
    **_H,
)

# HANDSHAKE_DONE: PROTOCOL_VIOLATION exactly on a server; a client confirms the handshake (once)
R.contract(
    "QuicConnection._handle_handshake_done_frame",
    assume_pre=[LOG, SPACES],
    raises={QCE: None},
    modifies=["context.quic_logger_frames", "self._handshake_confirmed", "QuicPacketRecovery.peer_completed_address_validation[*]"] + [],
    ensures=["self._is_client and self._handshake_confirmed", "buf.g_pos == old(buf.g_pos)"],
    on_raise={QCE: ["exc_error_code == QuicErrorCode.PROTOCOL_VIOLATION", "not self._is_client", "self._handshake_confirmed == old(self._handshake_confirmed)"]},
    **_H,
)

# CONNECTION_CLOSE: never an error (an undecodable reason phrase becomes ""); the first close reason is latched and the
# connection starts draining
R.contract(
    "QuicConnection._handle_connection_close_frame",
    assume_pre=[LOG],
    raises={BRE: None},
    modifies=["buf.g_pos", "context.quic_logger_frames", "self._close_event", "self._close_at", "self._state"],
    ensures=["self._close_event is not None", "implies(old(self._close_event) is not None, self._close_event == old(self._close_event) and self._state == old(self._state))",
             "implies(old(self._close_event) is None, self._state == QuicConnectionState.DRAINING)", "same(self._events, old(self._events))"],
    on_raise={BRE: ["self._close_event == old(self._close_event) and self._state == old(self._state)"]},
    **_H,
)

# ---------------------------------------------------------------------------------------------- ACK
# pull_ack_frame (packet.py): whatever the six-plus varints say (gaps / range lengths larger than the largest
# acknowledged number give negative bounds, which RangeSet accepts), the parser returns a NON-EMPTY range set or fails
# with BufferReadError: every add() is called with stop = end + 1 > end - ack_count = start because ack_count >= 0.
R.contract(
    "pull_ack_frame",
    returns="tuple[RangeSet,int]",
    raises={BRE: None},
    modifies=["buf.g_pos"],
    loops={0: dict(invariant=["len(RL(rangeset)) > 0", "0 <= delay <= 4611686018427387903", "buf.g_pos > old(buf.g_pos)"],
                   modifies=["rangeset._RangeSet__ranges", "rangeset.gview", "rangeset.gidx", "buf.g_pos"])},
    ensures=["len(RL(result[0])) > 0", "0 <= result[1] <= 4611686018427387903", "buf.g_pos > old(buf.g_pos)"],
    prop=["C05"],
)

# ACK / ACK_ECN.  `requires`: the dispatcher must not hand an ACK frame of a 0-RTT packet to this handler (there is no
# 0-RTT packet number space: self._spaces[Epoch.ZERO_RTT] would be a KeyError) - discharged in _payload_received from the
# epoch column of the dispatch table.  space_ok: ledger invariant of the packet number space (C08, inductive over the
# recovery operations).
EPOCH_IH1 = "context.epoch == Epoch.INITIAL or context.epoch == Epoch.HANDSHAKE or context.epoch == Epoch.ONE_RTT"
R.contract(
    "QuicConnection._handle_ack_frame",
    requires=[EPOCH_IH1],
    assume_pre=[LOG, SPACES, "space_ok(self._spaces[context.epoch])", "0 <= self._remote_ack_delay_exponent <= 20"],
    raises={BRE: None},
    # on_ack_received runs the delivery handlers of the acknowledged packets (opaque callables, policy OPAQUE_CALL of
    # contracts/quic_recovery.py: they do not raise; everything outside the recovery ledger is havocked)
    modifies=["buf.g_pos", "context.quic_logger_frames", "<opaque>"],
    ensures=[],  # (after the opaque delivery handlers nothing about the connection is known any more)
    **_H,
)

# ---------------------------------------------------------------------------------------------- CRYPTO
# Invariants of the crypto streams (one QuicStream per epoch, created by _initialize with stream_id None, never exposed
# to the application and never addressed by a frame: _get_or_create_stream only looks at self._streams):
#   CS1 the three epochs are present in _crypto_streams, and every epoch with an output buffer has a crypto stream
#   CS2 their send halves are never finished or reset (write() is only called without end_stream, reset() never)
#   CS3 their receive halves have no final size (CRYPTO frames carry no FIN, RESET_STREAM cannot name them)
CS_BUFFERS = "forall(lambda e: implies(e in self._crypto_buffers, e in self._crypto_streams), types={'e': 'Epoch'})"
CS_SENDERS = "forall(lambda e: implies(e in self._crypto_streams, self._crypto_streams[e].sender._buffer_fin is None and self._crypto_streams[e].sender._reset_error_code is None), types={'e': 'Epoch'})"
CS_RECV = "self._crypto_streams[context.epoch].receiver._final_size is None"
R.field_types("QuicStreamSender", _buffer_fin="Optional[int]", _reset_error_code="Optional[int]")
R.field_types("QuicStreamReceiver", _final_size="Optional[int]")
R.contract("QuicStreamReceiver.starting_offset", inline=True)

_TXW_MOD = ["RangeSet._RangeSet__ranges[*]", "RangeSet.gview[*]", "RangeSet.gidx[*]", "QuicStreamSender._pending_eof[*]", "QuicStreamSender.buffer_is_empty[*]", "QuicStreamSender._buffer[*]",
            "QuicStreamSender._buffer_stop[*]", "QuicStreamSender._buffer_fin[*]", "QuicStreamSender.gW[*]", "Buffer.g_pos[*]"]
# hands the TLS output of every epoch to that epoch's crypto stream: cannot fail (CS1, CS2)
R.contract(
    "QuicConnection._push_crypto_data",
    assume_pre=[CS_BUFFERS, CS_SENDERS],
    raises={},
    modifies=_TXW_MOD,
    loops={0: dict(invariant=["0 <= _i0 <= len(_seq0)", CS_BUFFERS, CS_SENDERS], modifies=_TXW_MOD)},
    ensures=[CS_SENDERS],
    **_H,
)

# What _handle_crypto_frame may assume about tls.Context.handle_message: its CALL-SITE SUMMARY "Context.handle_message!call",
# DERIVED from the verified contract of handle_message (contracts/tls_state.py: "raises only tls.Alert subclasses, what the
# callbacks raise, MemoryError, BufferWriteError for a too small output buffer, ValueError / OpenSSL Error for an unloadable
# local trust configuration" - property C05, TLS part) by
#   * renaming CallbackError - the abstract name the TLS contracts use for "whatever the installed callbacks raise" - to
#     QuicConnectionError: the callbacks of THIS embedding are QuicConnection._alpn_handler (raises QuicConnectionError for
#     bad transport parameters), _update_traffic_key and _handle_session_ticket (user handler: assumed not to raise);
#   * effects: ANY field of any object (the TLS context and, through the callbacks, the connection, its crypto pairs, its
#     recovery object, the event queue);
#   * tying the two LOCAL outcomes to named assumptions of the call site (assume_pre of the block below), so that they are
#     visible in the evidence instead of silently dropped:
#       TLS_OUT  tls_out_room(tls): the per-epoch crypto output buffers (4096 bytes, _initialize) hold the local flight - its
#                size is fixed by local configuration (certificate chain, ALPN, transport parameters) plus at most 255 + 32
#                peer-chosen bytes (echoed session id / certificate request context)
#       TLS_CA   the local trust configuration (cadata / cafile / capath or the certifi bundle) can be loaded
#     and to the entry condition L of handle_message ("not fed again after it raised", contracts/tls_state.py).
R.ufunc("tls_out_room", ["Context"], "bool")
TLS_OUT = "tls_out_room(self.tls)"
TLS_CA = "self.tls._verify_mode == ssl.CERT_NONE or not vc_config_bad(self.tls._cadata, self.tls._cafile, self.tls._capath)"
TLS_LIVE = "live(self.tls)"


def _tls_call_summary(reg):
    import copy

    real = reg.contracts.get("Context.handle_message")
    if real is None:
        return
    c = copy.copy(real)
    c.key = "Context.handle_message!call"
    assert set(real.raises) == {"Alert", "CallbackError", "BufferWriteError", "MemoryError", "ValueError", "Error"}, real.raises
    c.raises = {"Alert": None, "QuicConnectionError": None, "MemoryError": None, "BufferWriteError": None, "ValueError": None, "Error": None}
    c.raise_attrs = {"Alert": {"description": "fresh:int"}, "QuicConnectionError": {"error_code": "fresh:int", "frame_type": "fresh:Optional[int]", "reason_phrase": "fresh:str"}}
    c.on_raise = {"BufferWriteError": ["not old(tls_out_room(self))"],
                  "ValueError": ["old(self._verify_mode != ssl.CERT_NONE and vc_config_bad(self._cadata, self._cafile, self._capath))"],
                  "Error": ["old(self._verify_mode != ssl.CERT_NONE and vc_config_bad(self._cadata, self._cafile, self._capath))"]}
    c.requires = list(real.assume_pre)  # L and the three epoch buffers: obligations of the caller
    c.assume_pre = []
    c.ensures = []
    c.loops = {}
    c.modifies = ["<everything>"]
    c.trusted = False
    reg.contracts[c.key] = c


R.after_load(_tls_call_summary)
R.field_types("QuicConnection", tls="Context")

# CRYPTO.  FRAME_ENCODING_ERROR exactly when offset + length > 2^62 - 1, CRYPTO_BUFFER_EXCEEDED exactly when the data would
# have to be buffered more than MAX_PENDING_CRYPTO (524288) bytes beyond the delivery position, a tls.Alert becomes
# CRYPTO_ERROR + its description.  Verified in three pieces, because handle_message (and the connection's own callbacks it
# runs) may change everything, and because the TLS call is where the property FAILS on the unchanged tree:
#   _handle_crypto_frame            the function up to the TLS call (stop_at): frame parsing, reassembly, duplicate-CRYPTO branch
#   _handle_crypto_frame@tls_call   the TLS call with its try/except             -> KNOWN FINDING (no-escape.Exception refuted)
#   _handle_crypto_frame@after      the handshake-completion statement that follows, under the connection invariants it needs
# The plain contract is also the summary used by the dispatcher: it states the CLAIM of C05 for the whole handler.
_TLS_CALL = "self._crypto_frame_type = frame_type"
_AFTER_TLS = "if not self._handshake_complete and self.tls.state in [tls.State.CLIENT_POST_HANDSHAKE, tls.State.SERVER_POST_HANDSHAKE]:"
R.contract(
    "QuicConnection._handle_crypto_frame",
    requires=[EPOCH_IH1],
    # all_spaces_ok: ledger invariant of the recovery object (C08, inductive over its operations)
    assume_pre=[LOG, CRYPTO_STREAMS, CS_RECV, "all_spaces_ok(self._loss)"],
    raises={BRE: None, QCE: None, MEM: None},
    modifies=["<everything>"],
    stop_at=[_TLS_CALL],
    on_raise={QCE: ["exc_error_code == QuicErrorCode.FRAME_ENCODING_ERROR or exc_error_code == QuicErrorCode.CRYPTO_BUFFER_EXCEEDED",
                    "implies(exc_error_code == QuicErrorCode.FRAME_ENCODING_ERROR, offset + length > 4611686018427387903)"]},
    ensures=["offset + length <= 4611686018427387903"],
    **_H,
)
# the TLS call.  CLAIM (C05): only QuicConnectionError leaves it - a tls.Alert is converted to CRYPTO_ERROR + description -
# (plus MemoryError).  DISCHARGED against the verified contract of tls.Context.handle_message; the genuine defects that
# remain inside the TLS layer on the unchanged tree are recorded where they are (known_findings.json: obligations of
# Context._check_certificate_verify_signature, _set_peer_certificate, _client_handle_hello, verify_certificate, ...).
R.contract(
    "QuicConnection._handle_crypto_frame@tls_call",
    region={"anchor": _TLS_CALL, "span": 3},
    params={"context": "QuicReceiveContext", "frame_type": "int", "event": "StreamDataReceived"},
    # CS_BUFFERS / CS_SENDERS: crypto-stream invariants (above); the three epoch buffers exist (_initialize@tables);
    # TLS_LIVE / TLS_OUT / TLS_CA: see the call-site summary above
    assume_pre=[CS_BUFFERS, CS_SENDERS, "Epoch.INITIAL in self._crypto_buffers and Epoch.HANDSHAKE in self._crypto_buffers and Epoch.ONE_RTT in self._crypto_buffers", TLS_LIVE, TLS_OUT, TLS_CA],
    raises={QCE: None, MEM: None},
    modifies=["<everything>"],
    on_raise={QCE: ["exc_frame_type == frame_type or True"]},
    ensures=["self._crypto_frame_type == frame_type or True"],
    **_H,
)
R.contract("Context.session_resumed", inline=True)  # property: returns self._session_resumed
# handshake completion: entered at most once; HC = host connection-ID invariant of C18 (contracts/quic_cid.py, proved
# inductive there), BLOCKED_IDS / SPACES as above
R.contract(
    "QuicConnection._handle_crypto_frame@after",
    region={"anchor": _AFTER_TLS, "span": 1},
    params={},
    assume_pre=[SPACES, BLOCKED_IDS, "hc_seq(self)"],
    raises={},
    modifies=["<everything>"],
    ensures=["implies(self.tls.state == State.CLIENT_POST_HANDSHAKE or self.tls.state == State.SERVER_POST_HANDSHAKE, self._handshake_complete)",
             "implies(old(self._handshake_complete), same(self._events, old(self._events)))",
             "len(self._events) <= len(old(self._events)) + 1"],
    **_H,
)

# ---------------------------------------------------------------------------------------------- dispatcher
# self.__frame_handlers is a constant table of bound methods: its dict display is read from __init__ on every run and the
# subscript / call are case-split over it (engine/pyvc/dispatch.py states the exact semantics and the checks T1-T3).
R.consts.setdefault("DISPATCH_TABLES", set()).add(("QuicConnection", "__frame_handlers"))


def _c18_entry_conditions(reg):
    # contracts/quic_cid.py states the connection-ID invariants PC / HC as `requires` of its two frame handlers, meaning
    # "assumed at entry" (C18_INV: inductive over the C18 functions, each proves them at exit).  They had no call site
    # so far; at the dispatcher they are connection invariants like the others, i.e. assumed entry conditions - moved
    # to assume_pre (identical for the handlers' own verification: both lists are assumed at entry).
    for k in ("QuicConnection._handle_new_connection_id_frame", "QuicConnection._handle_retire_connection_id_frame"):
        c = reg.contracts.get(k)
        if c is not None and c.requires:
            c.assume_pre = list(c.requires) + list(c.assume_pre)
            c.requires = []


R.after_load(_c18_entry_conditions)

_QCE_ATTRS = {QCE: {"error_code": "fresh:int", "frame_type": "fresh:Optional[int]", "reason_phrase": "fresh:str"}}

# _payload_received: the ONLY exception that leaves it is QuicConnectionError - a truncated frame type or frame body
# (BufferReadError) becomes FRAME_ENCODING_ERROR, a frame type outside the table FRAME_ENCODING_ERROR (the KeyError of the
# lookup is converted), a frame type not allowed in the packet's epoch PROTOCOL_VIOLATION, StreamFinishedError is dropped,
# an empty payload / a first Initial without CRYPTO PROTOCOL_VIOLATION.  Every handler is called by its contract (H);
# the handlers' entry conditions on the epoch (ACK, CRYPTO: not 0-RTT) are proved from the epoch column of the table.

# RESULT of _payload_received (used by the acknowledgement machinery, C12).  From RFC 9000 13.2.1 / 9.1, not from the code's tables:
#   a packet is ack-eliciting iff it carries at least one frame other than ACK (0x02, 0x03), PADDING (0x00), CONNECTION_CLOSE (0x1c, 0x1d);
#   a packet is a probing packet iff every frame in it is PATH_CHALLENGE (0x1a), PATH_RESPONSE (0x1b), NEW_CONNECTION_ID (0x18) or PADDING.
# Ghosts over the frames parsed so far, updated where the frame type has just been read and looked up (so a frame whose
# handler ends in StreamFinishedError - ignored by the dispatcher - still counts: the packet is ack-eliciting all the same):
#   g_ae  some parsed frame is ack-eliciting          g_np  some parsed frame is not a probing frame
R.spec(
    """
def ack_eliciting_type(t):
    return not (t == 0 or t == 2 or t == 3 or t == 28 or t == 29)

def probing_type(t):
    return t == 0 or t == 24 or t == 26 or t == 27
"""
)
_LOOKUP = "frame_handler, frame_epochs = self.__frame_handlers[frame_type]"
R.contract(
    "QuicConnection._payload_received",
    params={"plain": "bytes"},
    returns="tuple[bool,bool]",
    # the STOP_SENDING handler's C16 clause is stated for an arbitrary stream id (ghost parameter); the dispatcher uses none of it
    ghost_args={"QuicConnection._handle_stop_sending_frame": {"gk": "0"}},
    locals={"is_probing": "Optional[bool]"},
    raises={QCE: None, MEM: None},
    raise_attrs=_QCE_ATTRS,
    modifies=["<everything>"],
    ghost_at={"buf = Buffer(data=plain)": {"g_ae": "False", "g_np": "False"},
              _LOOKUP: {"g_ae": "g_ae or ack_eliciting_type(frame_type)", "g_np": "g_np or not probing_type(frame_type)"}},
    loops={0: dict(invariant=["implies(crypto_frame_found, frame_found)",
                              "is_ack_eliciting == g_ae",
                              "(is_probing is None) == (not frame_found)",
                              "implies(is_probing is not None, some(is_probing) == (not g_np))",
                              "implies(not frame_found, not g_ae and not g_np)"],
                   modifies=["<everything>", "<opaque>", "g_ae", "g_np"])},
    ensures=["frame_found", "implies(crypto_frame_required, crypto_frame_found)",
             # the pair handed to receive_datagram: (packet is ack-eliciting, packet is a probing packet)
             "result[0] == g_ae", "result[1] == (not g_np)"],
    **_H,
)

# ---------------------------------------------------------------------------------------------- receive_datagram
R.field_types("QuicHeader", version="Optional[int]", packet_type="QuicPacketType", packet_length="int", destination_cid="bytes", source_cid="bytes")
R.spec(
    """
def ce(c):
    return c._close_event is None or in_end_state(c._state) or c._close_pending
"""
)
# R: the exception boundary.  Block contract on `context = QuicReceiveContext(...)` + the try statement around
# _payload_received: the one exception type _payload_received can raise (contract P) is caught here and turned into
# close(error_code, frame_type, reason_phrase) with the attributes of the error; nothing escapes the block (apart from
# MemoryError on allocation failure).  A caught error with no close in progress latches the close (close pending).
_CTX = "context = QuicReceiveContext(epoch=epoch, host_cid=header.destination_cid, network_path=network_path, quic_logger_frames=quic_logger_frames, time=now, version=header.version)"
R.contract(
    "QuicConnection.receive_datagram@boundary",
    region={"anchor": _CTX, "span": 2},
    params={"epoch": "Epoch", "header": "QuicHeader", "network_path": "QuicNetworkPath", "quic_logger_frames": "Optional[list[Any]]", "now": "float", "plain_payload": "bytes", "crypto_frame_required": "bool"},
    raises={MEM: None},
    modifies=["<everything>"],
    # the reaction to a caught error: with no close in progress and outside the end states the close is latched and pending
    ghost_at={_CTX: {"g_idle": "False"},
              "self.close(error_code=exc.error_code, frame_type=exc.frame_type, reason_phrase=exc.reason_phrase)": {"g_idle": "self._close_event is None and not in_end_state(self._state)"}},
    ensures=["implies(g_idle, self._close_pending and self._close_event is not None)"],
    **_H,
)
# LOG: the frame list handed to the handlers exists whenever a qlog trace is attached (block contract on the two statements
# that create it; _quic_logger is assigned only in __init__ and - to None - in _close_end)
R.contract(
    "QuicConnection.receive_datagram@qlog_frames",
    region={"anchor": "quic_logger_frames: Optional[list[dict]] = None", "span": 2},
    params={"header": "QuicHeader", "packet_number": "int"},
    locals={"quic_logger_frames": "Optional[list[Any]]"},
    raises={},
    modifies=[],
    ensures=["self._quic_logger is None or quic_logger_frames is not None"],
    **_H,
)

# E: next_event never raises (an empty queue gives None)
R.contract(
    "QuicConnection.next_event",
    returns="Optional[QuicEvent]",
    raises={},
    modifies=["self._events"],
    ensures=["implies(len(old(self._events)) == 0, result is None and len(self._events) == 0)",
             "implies(len(old(self._events)) > 0, result is not None and some(result) == at(old(self._events), 0) and len(self._events) == len(old(self._events)) - 1)"],
    **_H,
)

R.contract("dump_cid", trusted=True, returns="str", note="binascii.hexlify(cid).decode('ascii'): stdlib, total on bytes")

# E: handle_timer returns normally whenever a close deadline exists (T1 of C09: established by connect() / the prologue of
# receive_datagram - receive_datagram@arm) and the recovery ledger invariant holds (C08)
R.contract(
    "QuicConnection.handle_timer",
    assume_pre=["self._close_at is not None", "all_spaces_ok(self._loss)", "self._quic_logger is None or self._configuration.quic_logger is not None"],
    raises={},
    modifies=["<everything>"],
    ensures=["implies(now >= some(old(self._close_at)), self._state == QuicConnectionState.TERMINATED and self._close_at is None and len(self._events) == len(old(self._events)) + 1)"],
    **_H,
)

# ---------------------------------------------------------------------------------------------- _initialize: SPACES / CS1-CS3 established
# block contract on the three table assignments of _initialize (crypto output buffers, crypto streams, packet number
# spaces): afterwards the three epochs are present in each, every epoch with an output buffer has a crypto stream, the
# crypto streams' send halves are neither finished nor reset and their receive halves have no final size
R.contract("QuicPacketSpace.__init__", inline=True)
R.contract(
    "QuicConnection._initialize@tables",
    region={"anchor": "writes:_crypto_buffers", "span": 3},
    params={},
    raises={MEM: None},
    modifies=["self._crypto_buffers", "self._crypto_streams", "self._spaces"],
    ensures=[SPACES, CRYPTO_STREAMS, CS_BUFFERS, CS_SENDERS,
             "forall(lambda e: implies(e in self._crypto_streams, self._crypto_streams[e].receiver._final_size is None and self._crypto_streams[e].stream_id is None), types={'e': 'Epoch'})",
             "Epoch.ZERO_RTT not in self._spaces"],
    **_H,
)

# FINDING (pre-authentication, server): block contract on the server-initialisation statement of receive_datagram, up to the
# statement after its assertion (stop_at).  CLAIM (C05): nothing is raised.  REFUTED on the unchanged tree:
# `assert header.packet_type == QuicPacketType.INITIAL` fails for a 0-RTT / Handshake long-header packet that follows an
# INITIAL packet which failed authentication (the state is still FIRSTFLIGHT); natively reproduced
# (tools/repro/c05_firstflight_assert.py), repair in tools/fixes/c05_firstflight_assert.patch.
R.contract(
    "QuicConnection.receive_datagram@first_packet",
    region={"anchor": "if not self._is_client and self._state == QuicConnectionState.FIRSTFLIGHT:", "span": 1},
    params={"header": "QuicHeader", "network_path": "QuicNetworkPath"},
    # what the preceding statements of receive_datagram leave possible: every packet type except Version Negotiation and Retry
    assume_pre=["header.packet_type != QuicPacketType.VERSION_NEGOTIATION and header.packet_type != QuicPacketType.RETRY"],
    raises={},
    stop_at=["crypto_frame_required = True"],
    modifies=[],
    ensures=["self._state == old(self._state)"],
    **_H,
)
