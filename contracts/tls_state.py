# Sidecar contracts for src/aioquic/tls.py, class Context  (R is injected by the loader)          property C11
#
# C11: "In every handshake state, only the message types TLS 1.3 permits next are processed and any other type is
# refused with an unexpected-message alert without changing state or installing keys. ... a client never accepts
# Finished without a verified CertificateVerify unless it offered, and the server selected, a pre-shared key.
# Traffic keys for an epoch are released only after the messages that authenticate them were verified."
#
# Sources of the clauses: RFC 8446 section 2 (message flow), section 4 (HandshakeType code points), Appendix A.1 /
# A.2 (client / server state machines), section 4.6 (post-handshake messages), section 7.1 (key schedule: which
# secret exists after which message); RFC 9001 sections 4.4, 6 and 8.3 (QUIC carries neither post-handshake client
# authentication, KeyUpdate nor EndOfEarlyData).  Nothing below is transcribed from tls.py except field names,
# frame lists (`modifies`) and the helper preconditions.
#
# Ghost state of a Context:
#   g_key_log  list of (Direction, Epoch): one entry per invocation of update_traffic_key_cb, in order
#   g_cv_ok    the peer's CertificateVerify signature verified (uninterpreted predicate sig_ok) under the public key
#              of the certificate the peer sent, over the transcript hash at that moment, with the peer's role string
#   g_psk_sel  (client) a PSK had been offered in the ClientHello and the ServerHello selected identity 0
#   g_fin_ok   the peer's Finished verify_data equalled - extensionally: same length, same bytes - the uninterpreted MAC
#              fin_mac(transcript BEFORE that Finished, the peer's handshake traffic secret) (strengthened for C03; on the
#              server through the class invariant H8 over the ghosts g_fin_base / g_fin_key); MAC validity itself stays
#              uninterpreted: the adversary of C11 knows the keys and can make it true

R.module_names.update({"ssl", "x509"})
R.consts["ssl.CERT_NONE"] = 0  # ssl.VerifyMode.CERT_NONE (stdlib constant)
R.consts["ssl.CERT_OPTIONAL"] = 1
R.consts["ssl.CERT_REQUIRED"] = 2
for _a, _t in dict(
    Extension="tuple[int,bytes]", CertificateEntry="tuple[bytes,bytes]", KeyShareEntry="tuple[int,bytes]", PskIdentity="tuple[bytes,int]",
    AlpnHandler="Callable", SessionTicketFetcher="Callable", SessionTicketHandler="Callable",
).items():
    R.type_aliases[_a] = _t

# ------------------------------------------------------------------------------------------------ external objects
R.extern_module(
    "cryptography_model.py",
    """
class X509Certificate:
    def public_key(self) -> CertPublicKey: ...
    def public_bytes(self, encoding) -> bytes: ...

class CertPublicKey:
    def verify(self, signature: bytes, data: bytes, *params) -> None: ...
""",
)
R.field_types("CertPublicKey", g_cert="X509Certificate")

# the only facts used about signatures: validity is SOME fixed predicate of (certificate, signature, signed data,
# algorithm parameters); the signed data is SOME fixed function of (transcript so far, role string)
R.ufunc("sig_ok", ["X509Certificate", "bytes", "bytes", "Any"], "bool")
R.ufunc("sig_params", ["int"], "Any")
R.ufunc("cv_data", ["bytes", "bytes"], "bytes")

# (C05) raise sets of the `cryptography` calls: from the library documentation, demonstrated natively - every declared
# exception occurs, no other type occurs on malformed input - by tools/repro/tls_crypto_stub_probe.py
_EXT = dict(trusted=True, note="third-party (cryptography) call: trusted stub with the documented raise set (tools/repro/tls_crypto_stub_probe.py)")
# Certificate.public_key(): the SubjectPublicKeyInfo is parsed lazily - ValueError for a malformed key, UnsupportedAlgorithm
# for a key type the library does not know (both occur for certificates that load_der_x509_certificate accepted)
R.contract("X509Certificate.public_key", returns="CertPublicKey", raises={"ValueError": None, "UnsupportedAlgorithm": None}, ensures=["result.g_cert == self"], **_EXT)
R.contract(
    "CertPublicKey.verify",
    params={"signature": "bytes", "data": "bytes", "params": "Any"},
    # cryptography: verify() returns None when the signature is valid and raises InvalidSignature otherwise.  The
    # PARAMETERS differ per key type (RSA: padding, hash; EC / DSA: one algorithm object; Ed25519 / Ed448: none; X25519 / X448
    # keys have no verify at all): parameters of another key type are a Python call error - TypeError / AttributeError
    raises={"TypeError": None, "AttributeError": None, "InvalidSignature": "not sig_ok(self.g_cert, signature, data, params)"},
    **_EXT,
)
# tls.py helper (12 lines) over two module-level tables of cryptography classes, outside the engine's subset: assumed BY
# READING and cross-checked natively for all 65536 codes (tools/repro/tls_crypto_stub_probe.py): a deterministic function
# of the code, KeyError exactly for a code that is neither ED25519 / ED448 nor a key of SIGNATURE_ALGORITHMS
R.spec(
    """
def sig_alg_known(a):
    # ED25519 0x0807, ED448 0x0808, and the keys of tls.SIGNATURE_ALGORITHMS (ECDSA 0x0403 0x0503 0x0603, RSA PKCS1 0x0201
    # 0x0401 0x0501 0x0601, RSA-PSS-RSAE 0x0804 0x0805 0x0806)
    return (a == 2055 or a == 2056 or a == 1027 or a == 1283 or a == 1539 or a == 513 or a == 1025 or a == 1281 or a == 1537
            or a == 2052 or a == 2053 or a == 2054)

def sigs_known(xs):
    # QUANTIFIER-FREE on purpose (Context.__init__ builds a list of 7 to 9 codes): a `no-escape` obligation is refuted only
    # by a model of ALL hypotheses, which the solvers find reliably only without universally quantified ones
    return (len(xs) <= 9 and implies(len(xs) > 0, sig_alg_known(sel(xs, 0))) and implies(len(xs) > 1, sig_alg_known(sel(xs, 1)))
            and implies(len(xs) > 2, sig_alg_known(sel(xs, 2))) and implies(len(xs) > 3, sig_alg_known(sel(xs, 3))) and implies(len(xs) > 4, sig_alg_known(sel(xs, 4)))
            and implies(len(xs) > 5, sig_alg_known(sel(xs, 5))) and implies(len(xs) > 6, sig_alg_known(sel(xs, 6))) and implies(len(xs) > 7, sig_alg_known(sel(xs, 7)))
            and implies(len(xs) > 8, sig_alg_known(sel(xs, 8))))

def suite_known(c):
    # keys of tls.CIPHER_SUITES (the suites with a hash function): 0x1301, 0x1302, 0x1303
    return c == 4865 or c == 4866 or c == 4867

def suites_known(xs):
    return forall(lambda k: implies(0 <= k < len(xs), suite_known(sel(xs, k))))
"""
)
R.contract(
    "signature_algorithm_params",
    returns="Any",
    raises={"KeyError": "not sig_alg_known(signature_algorithm)"},
    ensures=["result == sig_params(signature_algorithm)"],
    trusted=True,
    note="tls.py helper building cryptography padding/hash objects: a deterministic function of the algorithm code, KeyError exactly for unknown codes (by reading + native sweep)",
)
# verify_certificate: under contract in contracts/tls_auth.py (C03): which certificates the verifier trusted, dates and name
# check, every verification failure an Alert

# ------------------------------------------------------------------------------------------------ key schedule
R.field_types("KeySchedule", algorithm="Any", cipher_suite="CipherSuite", generation="int", hash="Any", hash_empty_value="bytes", secret="bytes", g_hash="bytes")
_KS = dict(trusted=True, note="KeySchedule wraps cryptography hash/HKDF objects: stub (g_hash = bytes fed to the transcript hash so far)")
R.contract("KeySchedule.update_hash", params={"data": "bytes"}, modifies=["self.g_hash"], ensures=["same(self.g_hash, old(self.g_hash) + data)"], **_KS)
R.contract("KeySchedule.extract", params={"key_material": "Optional[bytes]"}, modifies=["self.generation", "self.secret"], ensures=["self.generation == old(self.generation) + 1"], **_KS)
R.contract("KeySchedule.derive_secret", returns="bytes", **_KS)  # HKDF-Expand-Label with length = digest size: total on bytes
# (C03) the Finished MAC (RFC 8446 4.4.4: HMAC(finished_key(secret), Transcript-Hash)) is SOME fixed function of the
# bytes hashed so far and the base secret - nothing else is used about it
R.ufunc("fin_mac", ["bytes", "Optional[bytes]"], "bytes")
R.contract("KeySchedule.finished_verify_data", params={"secret": "Optional[bytes]"}, returns="bytes",
           # HKDFExpand.derive(None) is a TypeError: the base secret must exist (proved at the call sites from the handshake state)
           requires=["secret is not None"],
           ensures=["same(result, fin_mac(self.g_hash, secret))"], **_KS)
R.contract("KeySchedule.certificate_verify_data", returns="bytes", ensures=["same(result, cv_data(self.g_hash, context_string))"], **_KS)

# ------------------------------------------------------------------------------------------------ message parsers
R.field_types("EncryptedExtensions", alpn_protocol="Optional[str]", early_data="bool", other_extensions="list[tuple[int,bytes]]")
R.field_types("Certificate", request_context="bytes", certificates="list[tuple[bytes,bytes]]")
R.field_types("CertificateRequest", request_context="bytes", signature_algorithms="Optional[list[int]]", other_extensions="list[tuple[int,bytes]]")
R.field_types("CertificateVerify", algorithm="int", signature="bytes")
R.field_types("Finished", verify_data="bytes")
# the message parsers pull_<message> are under exception-effect contracts of their own (contracts/tls_noraise.py, C05):
# they raise only BufferReadError / tls.Alert subclasses, move only the read position and return a new message object

# ------------------------------------------------------------------------------------------------ Context
R.field_types(
    "Context",
    state="State",
    _is_client="bool",
    _session_resumed="bool",
    key_schedule="Optional[KeySchedule]",
    _key_schedule_psk="Optional[KeySchedule]",
    _enc_key="Optional[bytes]",
    _dec_key="Optional[bytes]",
    _next_dec_key="Optional[bytes]",
    _expected_verify_data="bytes",
    _peer_certificate="Optional[X509Certificate]",
    _peer_certificate_chain="list[X509Certificate]",
    _certificate_request="Optional[CertificateRequest]",
    _verify_mode="int",
    _cadata="Optional[bytes]",
    _cafile="Optional[str]",
    _capath="Optional[str]",
    _server_name="Optional[str]",
    _signature_algorithms="list[int]",
    alpn_negotiated="Optional[str]",
    early_data_accepted="bool",
    received_extensions="Optional[list[tuple[int,bytes]]]",
    alpn_cb="Optional[Callable]",
    get_session_ticket_cb="Optional[Callable]",
    new_session_ticket_cb="Optional[Callable]",
    update_traffic_key_cb="Callable",
    _Context__logger="Optional[Callable]",  # logging.Logger: an opaque handle, only its presence is tested
    g_key_log="list[tuple[Direction,Epoch]]",
    g_cv_ok="bool",
    g_psk_sel="bool",
    g_fin_ok="bool",
    g_fin_base="bytes",  # (C03, server) the transcript at the moment the expected client Finished was computed
    g_fin_key="Optional[bytes]",  # (C03, server) the secret it was computed with (client handshake traffic secret)
    _new_session_ticket="Optional[NewSessionTicket]",
    _request_client_certificate="bool",
    _psk_key_exchange_mode="Optional[int]",
    _max_early_data="Optional[int]",
    _cipher_suites="list[int]",
    _legacy_compression_methods="list[int]",
    _supported_versions="list[int]",
    handshake_extensions="list[tuple[int,bytes]]",
    client_random="Optional[bytes]",
    server_random="Optional[bytes]",
    legacy_session_id="Optional[bytes]",
    _x25519_private_key="Optional[X25519PrivateKey]",
    _x448_private_key="Optional[X448PrivateKey]",
    _ec_private_keys="list[EcPrivateKey]",
    _key_schedule_proxy="Optional[KeyScheduleProxy]",
    certificate="Optional[X509Certificate]",
    certificate_chain="list[Optional[X509Certificate]]",
    certificate_private_key="Optional[SigningKey]",
    session_ticket="Optional[SessionTicket]",
)

# callbacks installed by the embedding code (QuicConnection._update_traffic_key / _alpn_handler / session ticket hooks
# or user code).  Opaque: they touch nothing of the Context; each invocation of update_traffic_key_cb is recorded in
# g_key_log (whether or not it raises).
R.contract(
    "Context.update_traffic_key_cb",
    callback=True,
    trusted=True,
    raises={"CallbackError": None},
    modifies=["self.g_key_log"],
    ensures=["same(self.g_key_log, old(self.g_key_log) + [(a0, a1)])"],
    on_raise={"CallbackError": ["same(self.g_key_log, old(self.g_key_log) + [(a0, a1)])"]},
    note="traffic-key release callback: ghost log append",
)
R.contract("Context.alpn_cb", callback=True, trusted=True, raises={"CallbackError": None}, note="ALPN notification callback")
R.contract("Context.new_session_ticket_cb", callback=True, trusted=True, raises={"CallbackError": None}, note="session ticket handler callback")

R.spec(
    """
def is_client_state(s):
    return (s == State.CLIENT_HANDSHAKE_START or s == State.CLIENT_EXPECT_SERVER_HELLO or s == State.CLIENT_EXPECT_ENCRYPTED_EXTENSIONS
            or s == State.CLIENT_EXPECT_CERTIFICATE_REQUEST_OR_CERTIFICATE or s == State.CLIENT_EXPECT_CERTIFICATE
            or s == State.CLIENT_EXPECT_CERTIFICATE_VERIFY or s == State.CLIENT_EXPECT_FINISHED or s == State.CLIENT_POST_HANDSHAKE)

def is_server_state(s):
    return (s == State.SERVER_EXPECT_CLIENT_HELLO or s == State.SERVER_EXPECT_CERTIFICATE or s == State.SERVER_EXPECT_CERTIFICATE_VERIFY
            or s == State.SERVER_EXPECT_FINISHED or s == State.SERVER_POST_HANDSHAKE)

def legal_next(s, mt):
    '''RFC 8446 A.1/A.2 + 4.6 (+ RFC 9001 4.4/6/8.3): the handshake message types (RFC 8446 section 4 code points:
    client_hello 1, server_hello 2, new_session_ticket 4, end_of_early_data 5, encrypted_extensions 8, certificate 11,
    certificate_request 13, certificate_verify 15, finished 20, key_update 24) that may be processed in state s.
    A.1: START -(send CH)-> WAIT_SH -SH-> WAIT_EE -EE-> WAIT_CERT_CR | WAIT_FINISHED(psk); WAIT_CERT_CR -CR-> WAIT_CERT,
    -Cert-> WAIT_CV; WAIT_CERT -Cert-> WAIT_CV -CV-> WAIT_FINISHED -Fin-> CONNECTED (then only NewSessionTicket: no
    post-handshake auth was offered, KeyUpdate is forbidden in QUIC).  A.2: START -CH-> ... WAIT_FLIGHT2 -> WAIT_CERT
    -Cert-> WAIT_CV | WAIT_FINISHED(empty); WAIT_CV -CV-> WAIT_FINISHED -Fin-> CONNECTED (then nothing; EndOfEarlyData
    is not used with QUIC).  Before the ClientHello is sent a client can process nothing.'''
    return ((s == State.CLIENT_EXPECT_SERVER_HELLO and mt == 2)
            or (s == State.CLIENT_EXPECT_ENCRYPTED_EXTENSIONS and mt == 8)
            or (s == State.CLIENT_EXPECT_CERTIFICATE_REQUEST_OR_CERTIFICATE and (mt == 13 or mt == 11))
            or (s == State.CLIENT_EXPECT_CERTIFICATE and mt == 11)
            or (s == State.CLIENT_EXPECT_CERTIFICATE_VERIFY and mt == 15)
            or (s == State.CLIENT_EXPECT_FINISHED and mt == 20)
            or (s == State.CLIENT_POST_HANDSHAKE and mt == 4)
            or (s == State.SERVER_EXPECT_CLIENT_HELLO and mt == 1)
            or (s == State.SERVER_EXPECT_CERTIFICATE and mt == 11)
            or (s == State.SERVER_EXPECT_CERTIFICATE_VERIFY and mt == 15)
            or (s == State.SERVER_EXPECT_FINISHED and mt == 20))

def legal_succ(s, mt, t, resumed, has_peer_cert):
    '''the state t reached after processing message mt in state s (same sources)'''
    return ((s == State.CLIENT_EXPECT_SERVER_HELLO and t == State.CLIENT_EXPECT_ENCRYPTED_EXTENSIONS)
            or (s == State.CLIENT_EXPECT_ENCRYPTED_EXTENSIONS and t == (State.CLIENT_EXPECT_FINISHED if resumed else State.CLIENT_EXPECT_CERTIFICATE_REQUEST_OR_CERTIFICATE))
            or (s == State.CLIENT_EXPECT_CERTIFICATE_REQUEST_OR_CERTIFICATE and mt == 13 and t == State.CLIENT_EXPECT_CERTIFICATE)
            or (s == State.CLIENT_EXPECT_CERTIFICATE_REQUEST_OR_CERTIFICATE and mt == 11 and t == State.CLIENT_EXPECT_CERTIFICATE_VERIFY)
            or (s == State.CLIENT_EXPECT_CERTIFICATE and t == State.CLIENT_EXPECT_CERTIFICATE_VERIFY)
            or (s == State.CLIENT_EXPECT_CERTIFICATE_VERIFY and t == State.CLIENT_EXPECT_FINISHED)
            or (s == State.CLIENT_EXPECT_FINISHED and t == State.CLIENT_POST_HANDSHAKE)
            or (s == State.CLIENT_POST_HANDSHAKE and t == State.CLIENT_POST_HANDSHAKE)
            or (s == State.SERVER_EXPECT_CLIENT_HELLO and (t == State.SERVER_EXPECT_CERTIFICATE or t == State.SERVER_EXPECT_FINISHED))
            or (s == State.SERVER_EXPECT_CERTIFICATE and t == (State.SERVER_EXPECT_CERTIFICATE_VERIFY if has_peer_cert else State.SERVER_EXPECT_FINISHED))
            or (s == State.SERVER_EXPECT_CERTIFICATE_VERIFY and t == State.SERVER_EXPECT_FINISHED)
            or (s == State.SERVER_EXPECT_FINISHED and t == State.SERVER_POST_HANDSHAKE))

def hash_fed(h1, h0, m, n):
    '''(C03) transcript h1 = transcript h0 followed by the first n bytes of m (and nothing else)'''
    return (len(h1) == len(h0) + n
            and forall(lambda k: implies(0 <= k < len(h0), elem(h1, k) == elem(h0, k)))
            and forall(lambda k: implies(0 <= k < n, elem(h1, len(h0) + k) == elem(m, k))))

def hash_extends(h1, h0):
    '''(C03) the transcript only grew: h0 is a prefix of h1'''
    return len(h1) >= len(h0) and forall(lambda k: implies(0 <= k < len(h0), elem(h1, k) == elem(h0, k)))

def keys_same(c):
    return same(c.g_key_log, old(c.g_key_log)) and same(c._enc_key, old(c._enc_key)) and same(c._dec_key, old(c._dec_key))

def auth_same(c):
    return (c.g_cv_ok == old(c.g_cv_ok) and c.g_fin_ok == old(c.g_fin_ok) and c.g_psk_sel == old(c.g_psk_sel) and c._session_resumed == old(c._session_resumed)
            and c._peer_certificate == old(c._peer_certificate) and c._is_client == old(c._is_client) and c.key_schedule == old(c.key_schedule))

def cv_checked(c, verify):
    '''the CertificateVerify check of RFC 8446 4.4.3: advertised algorithm, signature valid under the peer
    certificate over (transcript hash, role string of the PEER)'''
    return (verify.algorithm in c._signature_algorithms
            and sig_ok(some(c._peer_certificate), verify.signature,
                       cv_data(some(c.key_schedule).g_hash, SERVER_CONTEXT_STRING if c._is_client else CLIENT_CONTEXT_STRING),
                       sig_params(verify.algorithm)))
"""
)

# class invariant H (all message histories): see the lemma in engine/props.py
H_MAIN = [
        # H0 the role never changes
        "self._is_client == is_client_state(self.state) and (is_client_state(self.state) or is_server_state(self.state))",
        # H1 client: Finished is awaited / was accepted only after a verified CertificateVerify or with a resumed session
        "implies(self.state == State.CLIENT_EXPECT_FINISHED or self.state == State.CLIENT_POST_HANDSHAKE, self.g_cv_ok or self._session_resumed)",
        # H2 client: a session counts as resumed only if a PSK was offered and the server selected it
        "implies(self._is_client and self._session_resumed, self.g_psk_sel)",
        # H3 the key schedule exists once a hello was processed
        "implies(self.state != State.CLIENT_HANDSHAKE_START and self.state != State.CLIENT_EXPECT_SERVER_HELLO and self.state != State.SERVER_EXPECT_CLIENT_HELLO, self.key_schedule is not None)",
        # H5 no verification is credited before a CertificateVerify was processed
        "implies(self.state != State.CLIENT_EXPECT_FINISHED and self.state != State.CLIENT_POST_HANDSHAKE and self.state != State.SERVER_EXPECT_FINISHED and self.state != State.SERVER_POST_HANDSHAKE, not self.g_cv_ok)",
        # H7 the handshake is complete only after the peer's Finished matched
        "implies(self.state == State.CLIENT_POST_HANDSHAKE or self.state == State.SERVER_POST_HANDSHAKE, self.g_fin_ok)",
]
R.invariant("Context", H_MAIN)
# ---- SERVER-SIDE ANALOGUE (separate list).  H6 is REFUTED on the unchanged tree for _server_handle_certificate
# (obligation inv-on-raise.Exception.7): genuine finding, reproduced natively - a Certificate message whose second chain
# entry is not DER makes _set_peer_certificate raise ValueError (not a tls.Alert) after _peer_certificate was stored,
# the state stays SERVER_EXPECT_CERTIFICATE; a following empty Certificate + Finished complete the handshake with a
# peer certificate for which no CertificateVerify was ever processed.  Recorded in known_findings.json; every other
# function still proves H4/H6.
H_SERVER_AUTH = [
    # H4 server: a client that presented a certificate reaches Finished only through a verified CertificateVerify
    "implies((self.state == State.SERVER_EXPECT_FINISHED or self.state == State.SERVER_POST_HANDSHAKE) and self._peer_certificate is not None, self.g_cv_ok)",
    # H6 server: no peer certificate before the client's Certificate message was accepted
    "implies(self.state == State.SERVER_EXPECT_CLIENT_HELLO or self.state == State.SERVER_EXPECT_CERTIFICATE, self._peer_certificate is None)",
]
R.invariant("Context", H_SERVER_AUTH)
# ---- (C03) H8 server: while the client's Finished is awaited, the stored expected verify_data IS the MAC over the
# transcript as it stood before that Finished (g_fin_base), under the client handshake traffic secret
H_FIN = [
    "implies(self.state == State.SERVER_EXPECT_FINISHED, same(self._expected_verify_data, fin_mac(self.g_fin_base, self.g_fin_key)))",
]
R.invariant("Context", H_FIN)

# ---- (C05) invariants the exception-effect proofs need
# N: hold in EVERY state, also after a failed message (class invariant)
H_NORAISE = [
    # N1 while a CertificateVerify is awaited the peer's certificate is stored (the Certificate handlers store it before they
    # change the state, and store nothing when they fail)
    "implies(self.state == State.CLIENT_EXPECT_CERTIFICATE_VERIFY or self.state == State.SERVER_EXPECT_CERTIFICATE_VERIFY, self._peer_certificate is not None)",
    # N2 / N3 the advertised signature algorithms and cipher suites are ones tls.py has table entries for (set once by __init__)
    "sigs_known(self._signature_algorithms)",
    "suites_known(self._cipher_suites)",
]
R.invariant("Context", H_NORAISE)
# L ("live"): established by every NORMAL return of handle_message, NOT by an exceptional one - a handler that fails
# half-way leaves e.g. the key schedule advanced or the ClientHello key-schedule proxy consumed while the state still
# names the same message.  handle_message ASSUMES it at entry (contract below): a Context must not be fed again after it
# raised - QuicConnection closes the connection on the first alert and drops every later datagram.
R.field_types("KeyScheduleProxy", g_suites="list[int]", g_gen="int")
R.spec(
    """
def live(c):
    return (implies(c.state == State.CLIENT_EXPECT_SERVER_HELLO,
                    c._key_schedule_proxy is not None and some(c._key_schedule_proxy).g_gen == 1 and same(some(c._key_schedule_proxy).g_suites, c._cipher_suites)
                    and implies(c._key_schedule_psk is not None, some(c._key_schedule_psk).generation == 1))
            and implies(c.state == State.CLIENT_EXPECT_ENCRYPTED_EXTENSIONS or c.state == State.CLIENT_EXPECT_CERTIFICATE_REQUEST_OR_CERTIFICATE or c.state == State.CLIENT_EXPECT_CERTIFICATE
                        or c.state == State.CLIENT_EXPECT_CERTIFICATE_VERIFY or c.state == State.CLIENT_EXPECT_FINISHED,
                        c.key_schedule is not None and some(c.key_schedule).generation == 2 and c._dec_key is not None)
            and implies(c.state == State.CLIENT_EXPECT_CERTIFICATE_REQUEST_OR_CERTIFICATE or c.state == State.CLIENT_EXPECT_CERTIFICATE
                        or c.state == State.CLIENT_EXPECT_CERTIFICATE_VERIFY or c.state == State.CLIENT_EXPECT_FINISHED, c._enc_key is not None)
            and implies(c.state == State.SERVER_EXPECT_CERTIFICATE or c.state == State.SERVER_EXPECT_CERTIFICATE_VERIFY or c.state == State.SERVER_EXPECT_FINISHED, c._dec_key is not None))
"""
)
LIVE = "live(self)"
# the configured certificate chain is a list of certificates (its Python annotation is list[x509.Certificate]; the model
# types its elements Optional only because the code concatenates it with [self.certificate], an Optional attribute)
R.spec(
    """
def chain_present(xs):
    return forall(lambda k: implies(0 <= k < len(xs), sel(xs, k) is not None))
"""
)
CHAIN = "chain_present(self.certificate_chain)"
# the message handed to a handler: the reassembly loop of handle_message cut it at its own length field, and dispatched on
# its first byte (the parsers ASSERT that byte; the dispatcher's final `assert input_buf.eof()` needs the length)
def _MSG(t):
    return ["input_buf.g_pos == 0 and input_buf.g_cap >= 4 and input_buf.g_cap == 4 + be3(input_buf.g_mem, 1)", "at(input_buf.g_mem, 0) == %d" % t]
_EOF = "input_buf.g_pos == input_buf.g_cap"
BRE, BWE, CBE, ALERT = "BufferReadError", "BufferWriteError", "CallbackError", "Alert"

_NOUM = {"AlertUnexpectedMessage": "False"}  # handlers never produce the dispatcher's alert themselves
_KS_FIELDS = ["KeySchedule.g_hash[*]", "KeySchedule.generation[*]", "KeySchedule.secret[*]"]

# ---- helpers (called in the middle of a transition: no class invariant at their boundary)
R.contract(
    "Context._set_state",
    inline=True,
    use_invariant=False,
    frame=True,
    modifies=["self.state"],
    ensures=["self.state == state"],
    prop=["C11"],
)

# RFC 8446 7.1/7.3: the traffic secret for (direction, epoch) is derived from the current key schedule and handed to the
# record layer; this is the ONLY function through which handshake-epoch keys leave the context.
R.contract(
    "Context._setup_traffic_protection",
    use_invariant=False,
    frame=True,
    requires=["self.key_schedule is not None"],
    raises={"CallbackError": None},
    modifies=["self._enc_key", "self._dec_key", "self.g_key_log"],
    ensures=[
        "same(self.g_key_log, old(self.g_key_log) + [(direction, epoch)])",
        "implies(direction == Direction.ENCRYPT, self._enc_key is not None and same(self._dec_key, old(self._dec_key)))",
        "implies(direction != Direction.ENCRYPT, self._dec_key is not None and same(self._enc_key, old(self._enc_key)))",
    ],
    on_raise={
        "CallbackError": [
            "same(self.g_key_log, old(self.g_key_log) + [(direction, epoch)])",
            "implies(direction == Direction.ENCRYPT, same(self._dec_key, old(self._dec_key)))",
            "implies(direction != Direction.ENCRYPT, same(self._enc_key, old(self._enc_key)))",
        ],
    },
    prop=["C11"],
)

# RFC 8446 4.4.3: "If the verification fails, the receiver MUST terminate the handshake with a decrypt_error alert";
# the algorithm must be one the receiver offered.  Raised exactly when the check fails; returns only when it passed.
R.contract(
    "Context._check_certificate_verify_signature",
    use_invariant=False,
    frame=True,
    # (C05) CLAIM: nothing but the decrypt_error alert leaves it.  REFUTED on the unchanged tree (known finding, natively
    # reproduced: tools/repro/c05_tls_certificate_verify_keytype.py): the peer chooses both the certificate and the
    # algorithm code - parameters that do not fit the certificate's key type make cryptography's verify() raise TypeError /
    # AttributeError, an unusable SubjectPublicKeyInfo makes public_key() raise ValueError / UnsupportedAlgorithm; only
    # InvalidSignature is converted.  Repair: tools/fixes/c05_tls_nonalert2.patch
    requires=["self._peer_certificate is not None", "self.key_schedule is not None", "sigs_known(self._signature_algorithms)"],
    # (AlertIllegalParameter: what the repair raises for a key that cannot be used with the algorithm; never on a path that returns)
    raises={"AlertDecryptError": "not cv_checked(self, verify)", "AlertIllegalParameter": None},
    modifies=[],
    prop=["C11", "C05"],
)

# ---- the dispatcher
_SEC_SAME = [
    "self.state == old(self.state)",
    "len(self.g_key_log) == len(old(self.g_key_log))", "keys_same(self)",
    "auth_same(self)",
]
R.contract(
    "Context._handle_reassembled_message",
    params={"output_buf": "dict[Epoch,Buffer]"},
    frame=True,
    # handle_message never dispatches before the ClientHello was sent (it returns early in CLIENT_HANDSHAKE_START); the
    # buffer holds exactly one message, cut at its own length field, and message_type is its first byte; L (live) as above
    requires=["self.state != State.CLIENT_HANDSHAKE_START",
              "input_buf.g_pos == 0 and input_buf.g_cap >= 4 and input_buf.g_cap == 4 + be3(input_buf.g_mem, 1)", "at(input_buf.g_mem, 0) == message_type", LIVE,
              "Epoch.INITIAL in output_buf and Epoch.HANDSHAKE in output_buf and Epoch.ONE_RTT in output_buf"],
    # (C05) the COMPLETE set of exception types: the unexpected-message alert exactly for an illegal (state, type) pair, any
    # other tls.Alert, BufferReadError (truncated message: converted into AlertDecodeError by handle_message), what the
    # callbacks raise, BufferWriteError (the caller's output buffer is too small for the local flight).  In particular
    # the final `assert input_buf.eof()` cannot fail: every parser consumes exactly the declared message length
    raises={
        "AlertUnexpectedMessage": "not legal_next(self.state, message_type)",
        ALERT: None,
        BRE: None,
        CBE: None,
        BWE: None,
        "MemoryError": None,  # allocation of a scratch Buffer (_server_expect_finished)
        "ValueError": None, "Error": None,  # unloadable LOCAL trust configuration (client CertificateVerify handler)
    },
    on_raise={
        # refused: nothing happened at all
        "AlertUnexpectedMessage": _SEC_SAME
        + [
            "some(self.key_schedule).g_hash == old(some(self.key_schedule).g_hash) or self.key_schedule is None",
            "input_buf.g_pos == old(input_buf.g_pos)",
            "self.alpn_negotiated == old(self.alpn_negotiated) and self.early_data_accepted == old(self.early_data_accepted)",
        ],
        # any other failure concerns a LEGAL message, and the state is not advanced
        ALERT: ["legal_next(old(self.state), message_type)", "self.state == old(self.state)"],
        BRE: ["legal_next(old(self.state), message_type)", "self.state == old(self.state)"],
        BWE: ["legal_next(old(self.state), message_type)", "self.state == old(self.state)"],
        CBE: ["legal_next(old(self.state), message_type)", "self.state == old(self.state)"],
        "MemoryError": ["legal_next(old(self.state), message_type)", "self.state == old(self.state)"],
        "ValueError": ["self.state == old(self.state)", "self._verify_mode != ssl.CERT_NONE and vc_config_bad(self._cadata, self._cafile, self._capath)"],
        "Error": ["self.state == old(self.state)", "self._verify_mode != ssl.CERT_NONE and vc_config_bad(self._cadata, self._cafile, self._capath)"],
    },
    modifies=[
        "self.state", "self._enc_key", "self._dec_key", "self.g_key_log", "self.g_cv_ok", "self.g_psk_sel", "self._session_resumed",
        "self.key_schedule", "self._key_schedule_psk", "self._key_schedule_proxy", "self._peer_certificate", "self._peer_certificate_chain",
        "self._certificate_request", "self.alpn_negotiated", "self.early_data_accepted", "self.received_extensions",
        "self.g_fin_ok", "self.g_fin_base", "self.g_fin_key", "self._expected_verify_data", "self._new_session_ticket", "self._next_dec_key", "self._psk_key_exchange_mode",
        "self.client_random", "self.server_random", "self.legacy_session_id", "self._x25519_private_key", "self._x448_private_key", "self._ec_private_keys",
        "Buffer.g_pos[*]", "Buffer.g_mem[*]",
    ] + _KS_FIELDS,
    ensures=[
        "legal_next(old(self.state), message_type)",
        "legal_succ(old(self.state), message_type, self.state, old(self._session_resumed), self._peer_certificate is not None)",
        "self._is_client == old(self._is_client)",
        # key release per processed message (RFC 8446 7.1: handshake secrets exist after ServerHello; application
        # secrets after the server Finished; the client's read/write application keys only after it verified it)
        "implies(message_type == 11 or message_type == 13 or message_type == 15 or message_type == 4, keys_same(self))",
        "implies(old(self.state) == State.CLIENT_EXPECT_SERVER_HELLO, same(self.g_key_log, old(self.g_key_log) + [(Direction.DECRYPT, Epoch.HANDSHAKE)]))",
        "implies(old(self.state) == State.CLIENT_EXPECT_ENCRYPTED_EXTENSIONS, same(self.g_key_log, old(self.g_key_log) + [(Direction.ENCRYPT, Epoch.HANDSHAKE)]))",
        "implies(old(self.state) == State.CLIENT_EXPECT_FINISHED, same(self.g_key_log, old(self.g_key_log) + [(Direction.DECRYPT, Epoch.ONE_RTT)] + [(Direction.ENCRYPT, Epoch.ONE_RTT)]))",
        "implies(old(self.state) == State.SERVER_EXPECT_FINISHED, same(self.g_key_log, old(self.g_key_log) + [(Direction.DECRYPT, Epoch.ONE_RTT)]))",
        # application-data read keys are released only by a matching Finished
        "implies(old(self.state) == State.CLIENT_EXPECT_FINISHED or old(self.state) == State.SERVER_EXPECT_FINISHED, self.g_fin_ok)",
        LIVE,
    ],
    prop=["C11", "C05"],
)

# ------------------------------------------------------------------------------------------------ handlers
# Every handler: is entered only in the state(s) of `requires` (proved at the dispatcher's call sites), never raises
# the unexpected-message alert itself, and on ANY failure leaves the state where it was.
_FAIL = ["self.state == old(self.state)", "len(self.g_key_log) == len(old(self.g_key_log))", "keys_same(self)", "auth_same(self)"]
_HASH = "self.key_schedule.g_hash"
# (C03) transcript integrity of a receive handler: the running hash was fed exactly the bytes of the message the parser
# consumed (Buffer.data = g_mem[:g_pos]; the dispatcher asserts g_pos == g_cap afterwards: the whole message), once, after
# everything that was there before, and nothing else
_T_FED = "hash_fed(self.key_schedule.g_hash, old(self.key_schedule.g_hash), input_buf.g_mem, input_buf.g_pos)"
R.contract(
    "x509.load_der_x509_certificate",
    returns="X509Certificate",
    # documented: ValueError.  OBSERVED natively in addition (tools/repro/tls_crypto_stub_probe.py): x509.InvalidVersion - a
    # direct subclass of Exception, NOT of ValueError - for a certificate whose version field is not v1 / v3
    raises={"ValueError": None, "InvalidVersion": None},
    trusted=True,
    note="cryptography: DER parser, returns a certificate object or raises ValueError / x509.InvalidVersion",
)

# (C11 / C05) all-or-nothing: every entry of the peer's list is parsed BEFORE anything is stored, so a failure stores
# nothing (the server-side invariant H6 - no peer certificate before an accepted Certificate message - survives it) and a
# success stores the first entry as the peer certificate.  CLAIM (C05): only alerts leave it - decode_error for an empty
# list, bad_certificate for an entry that does not parse.  The x509.InvalidVersion outcome of the parser is NOT converted
# on the unchanged tree: known finding (obligation no-escape.InvalidVersion), repair in tools/fixes/c05_tls_nonalert2.patch
R.contract(
    "Context._set_peer_certificate",
    use_invariant=False,
    frame=True,
    raises={"AlertDecodeError": "len(certificate.certificates) == 0", "AlertBadCertificate": None},
    modifies=["self._peer_certificate", "self._peer_certificate_chain"],
    ensures=["self._peer_certificate is not None", "len(certificate.certificates) > 0"],
    on_raise={"AlertDecodeError": ["self._peer_certificate == old(self._peer_certificate)", "same(self._peer_certificate_chain, old(self._peer_certificate_chain))"],
              "AlertBadCertificate": ["self._peer_certificate == old(self._peer_certificate)", "same(self._peer_certificate_chain, old(self._peer_certificate_chain))", "len(certificate.certificates) > 0"]},
    prop=["C11", "C05"],
)

# A.1 WAIT_EE: EncryptedExtensions; then WAIT_FINISHED when the PSK is in use, WAIT_CERT_CR otherwise.
# 7.1: client_handshake_traffic_secret becomes available (sending keys for the client's Finished flight).
R.contract(
    "Context._client_handle_encrypted_extensions",
    frame=True,
    requires=["self.state == State.CLIENT_EXPECT_ENCRYPTED_EXTENSIONS", LIVE] + _MSG(8),
    raises={"AlertUnexpectedMessage": "False", ALERT: None, BRE: None, CBE: None},
    modifies=["self.alpn_negotiated", "self.early_data_accepted", "self.received_extensions", "self._enc_key", "self._dec_key", "self.g_key_log", "self.state", "input_buf.g_pos", _HASH],
    ensures=[
        "self.state == (State.CLIENT_EXPECT_FINISHED if old(self._session_resumed) else State.CLIENT_EXPECT_CERTIFICATE_REQUEST_OR_CERTIFICATE)",
        "same(self.g_key_log, old(self.g_key_log) + [(Direction.ENCRYPT, Epoch.HANDSHAKE)])",
        "same(self._dec_key, old(self._dec_key))",
        "auth_same(self)",
        _T_FED,
        LIVE, _EOF,
    ],
    on_raise={
        ALERT: _FAIL, BRE: _FAIL,
        "CallbackError": ["self.state == old(self.state)", "auth_same(self)", "same(self._dec_key, old(self._dec_key))",
                          "same(self.g_key_log, old(self.g_key_log)) or same(self.g_key_log, old(self.g_key_log) + [(Direction.ENCRYPT, Epoch.HANDSHAKE)])"],
    },
    prop=["C11", "C05"],
)

# A.1 WAIT_CERT_CR -CertificateRequest-> WAIT_CERT
R.contract(
    "Context._client_handle_certificate_request",
    frame=True,
    requires=["self.state == State.CLIENT_EXPECT_CERTIFICATE_REQUEST_OR_CERTIFICATE", LIVE] + _MSG(13),
    raises={"AlertUnexpectedMessage": "False", ALERT: None, BRE: None},
    modifies=["self._certificate_request", "self.state", "input_buf.g_pos", _HASH],
    ensures=["self.state == State.CLIENT_EXPECT_CERTIFICATE", "len(self.g_key_log) == len(old(self.g_key_log))", "keys_same(self)", "auth_same(self)", _T_FED, LIVE, _EOF],
    on_raise={ALERT: _FAIL, BRE: _FAIL},
    prop=["C11", "C05"],
)

# A.1 WAIT_CERT_CR / WAIT_CERT -Certificate-> WAIT_CV
_AUTH_BUT_FIN = "self.g_cv_ok == old(self.g_cv_ok) and self.g_psk_sel == old(self.g_psk_sel) and self._session_resumed == old(self._session_resumed) and self._peer_certificate == old(self._peer_certificate) and self._is_client == old(self._is_client) and self.key_schedule == old(self.key_schedule)"
_AUTH_BUT_CERT = "self.g_cv_ok == old(self.g_cv_ok) and self.g_fin_ok == old(self.g_fin_ok) and self.g_psk_sel == old(self.g_psk_sel) and self._session_resumed == old(self._session_resumed) and self._is_client == old(self._is_client) and self.key_schedule == old(self.key_schedule)"
R.contract(
    "Context._client_handle_certificate",
    frame=True,
    requires=["self.state == State.CLIENT_EXPECT_CERTIFICATE_REQUEST_OR_CERTIFICATE or self.state == State.CLIENT_EXPECT_CERTIFICATE", LIVE] + _MSG(11),
    raises={"AlertUnexpectedMessage": "False", ALERT: None, BRE: None},
    modifies=["self._peer_certificate", "self._peer_certificate_chain", "self.state", "input_buf.g_pos", _HASH],
    ensures=["self.state == State.CLIENT_EXPECT_CERTIFICATE_VERIFY", "len(self.g_key_log) == len(old(self.g_key_log))", "keys_same(self)", _AUTH_BUT_CERT, "self._peer_certificate is not None", _T_FED, LIVE, _EOF],
    on_raise={ALERT: ["self.state == old(self.state)", "len(self.g_key_log) == len(old(self.g_key_log))", "keys_same(self)", "auth_same(self)"],
              BRE: ["self.state == old(self.state)", "len(self.g_key_log) == len(old(self.g_key_log))", "keys_same(self)", "auth_same(self)"]},
    prop=["C11", "C05"],
)

# A.1 WAIT_CV -CertificateVerify-> WAIT_FINISHED, and ONLY with a valid signature (4.4.3).  g_cv_ok records the
# outcome of the check on the entry transcript; H1/H5 then force it to be true.
R.contract(
    "Context._client_handle_certificate_verify",
    frame=True,
    requires=["self.state == State.CLIENT_EXPECT_CERTIFICATE_VERIFY", LIVE] + _MSG(15),
    # (C05) besides alerts: ValueError / OpenSSL.crypto.Error exactly for an unloadable LOCAL trust configuration (CA data /
    # file / path) - verify_certificate's contract (contracts/tls_auth.py), never caused by the peer
    raises={"AlertUnexpectedMessage": "False", ALERT: None, BRE: None, "ValueError": None, "Error": None},
    modifies=["self.g_cv_ok", "self.state", "input_buf.g_pos", _HASH],
    ghost_exit={"self.g_cv_ok": "old(cv_checked(self, verify))"},
    ensures=[
        "self.state == State.CLIENT_EXPECT_FINISHED",
        "self.g_cv_ok",
        "len(self.g_key_log) == len(old(self.g_key_log))", "keys_same(self)",
        "self.g_fin_ok == old(self.g_fin_ok) and self.g_psk_sel == old(self.g_psk_sel) and self._session_resumed == old(self._session_resumed) and self._peer_certificate == old(self._peer_certificate) and self._is_client == old(self._is_client) and self.key_schedule == old(self.key_schedule)",
        _T_FED,  # the signature was checked over the transcript BEFORE this message (g_cv_ok = old(cv_checked)), then the message entered it
        # (C03) unless verification is switched off, WAIT_FINISHED is reached only with a leaf certificate that is within its
        # validity period, matches the name this client asked for and chains to a CONFIGURED trust anchor, the server's
        # extra certificates serving as untrusted intermediates only (contracts/tls_auth.py, verify_certificate)
        "implies(self._verify_mode != ssl.CERT_NONE, self._peer_certificate is not None and not vc_expired(self._peer_certificate) and not vc_name_bad(self._peer_certificate, self._server_name)"
        " and vc_chain_ok(self._peer_certificate, self._peer_certificate_chain, self._cadata, self._cafile, self._capath))",
        LIVE, _EOF,
    ],
    on_raise={ALERT: _FAIL, BRE: _FAIL,
              "ValueError": _FAIL + ["self._verify_mode != ssl.CERT_NONE and vc_config_bad(self._cadata, self._cafile, self._capath)"],
              "Error": _FAIL + ["self._verify_mode != ssl.CERT_NONE and vc_config_bad(self._cadata, self._cafile, self._capath)"]},
    prop=["C11", "C05"],
)

# A.2 WAIT_CERT -Certificate-> WAIT_CV (non-empty) | WAIT_FINISHED (empty: "no client auth")
R.contract(
    "Context._server_handle_certificate",
    frame=True,
    requires=["self.state == State.SERVER_EXPECT_CERTIFICATE", LIVE] + _MSG(11),
    raises={"AlertUnexpectedMessage": "False", ALERT: None, BRE: None, CBE: None, BWE: None, "MemoryError": None},
    modifies=["self._peer_certificate", "self._peer_certificate_chain", "self.state", "self._expected_verify_data", "self.g_fin_base", "self.g_fin_key", "self._new_session_ticket", "input_buf.g_pos", "output_buf.g_pos", "output_buf.g_mem", _HASH],
    ensures=[
        "self.state == (State.SERVER_EXPECT_CERTIFICATE_VERIFY if self._peer_certificate is not None else State.SERVER_EXPECT_FINISHED)",
        "len(self.g_key_log) == len(old(self.g_key_log))", "keys_same(self)",
        _AUTH_BUT_CERT,
        "implies(self.state == State.SERVER_EXPECT_CERTIFICATE_VERIFY, %s)" % _T_FED,
        "hash_extends(self.key_schedule.g_hash, old(self.key_schedule.g_hash))",
        LIVE, _EOF,
    ],
    cuts={"if certificate.certificates:": [_T_FED]},
    on_raise={k_: ["self.state == old(self.state)", "len(self.g_key_log) == len(old(self.g_key_log))", "keys_same(self)", "auth_same(self)"] for k_ in (ALERT, BRE, CBE, BWE, "MemoryError")},
    prop=["C11", "C05"],
)

# A.2 WAIT_CV -CertificateVerify-> WAIT_FINISHED, only with a valid signature (client role string)
R.contract(
    "Context._server_handle_certificate_verify",
    frame=True,
    requires=["self.state == State.SERVER_EXPECT_CERTIFICATE_VERIFY", LIVE] + _MSG(15),
    raises={"AlertUnexpectedMessage": "False", ALERT: None, BRE: None, CBE: None, BWE: None, "MemoryError": None},
    modifies=["self.g_cv_ok", "self.state", "self._expected_verify_data", "self.g_fin_base", "self.g_fin_key", "self._new_session_ticket", "input_buf.g_pos", "output_buf.g_pos", "output_buf.g_mem", _HASH],
    ghost_exit={"self.g_cv_ok": "old(cv_checked(self, verify))"},
    cuts={"self._server_expect_finished(output_buf)": [_T_FED]},
    ensures=[
        "self.state == State.SERVER_EXPECT_FINISHED",
        "self.g_cv_ok",
        "len(self.g_key_log) == len(old(self.g_key_log))", "keys_same(self)",
        "self.g_fin_ok == old(self.g_fin_ok) and self.g_psk_sel == old(self.g_psk_sel) and self._session_resumed == old(self._session_resumed) and self._peer_certificate == old(self._peer_certificate) and self._is_client == old(self._is_client) and self.key_schedule == old(self.key_schedule)",
        LIVE, _EOF,
    ],
    on_raise={ALERT: _FAIL, BRE: _FAIL, BWE: ["self.state == old(self.state)", "len(self.g_key_log) == len(old(self.g_key_log))", "keys_same(self)"],
              "MemoryError": ["self.state == old(self.state)", "len(self.g_key_log) == len(old(self.g_key_log))", "keys_same(self)"], "CallbackError": ["self.state == old(self.state)", "len(self.g_key_log) == len(old(self.g_key_log))", "keys_same(self)"]},
    prop=["C11", "C05"],
)

# A.2 WAIT_FINISHED -Finished-> CONNECTED; 7.1: the client application traffic secret is installed for reading only now
R.contract(
    "Context._server_handle_finished",
    frame=True,
    requires=["self.state == State.SERVER_EXPECT_FINISHED", LIVE] + _MSG(20),
    raises={"AlertUnexpectedMessage": "False", ALERT: None, BRE: None, CBE: None},
    modifies=["self._dec_key", "self._next_dec_key", "self.g_key_log", "self.g_fin_ok", "self.state", "input_buf.g_pos"],
    # g_fin_ok := outcome of the comparison, recorded where the key is about to be committed
    # (C03: extensional equality, length included, with the MAC over the transcript before the client Finished - H8)
    ghost_at={"self._dec_key = self._next_dec_key": {"self.g_fin_ok": "finished.verify_data == fin_mac(self.g_fin_base, self.g_fin_key)"}},
    ensures=[
        "self.state == State.SERVER_POST_HANDSHAKE",
        "same(self.g_key_log, old(self.g_key_log) + [(Direction.DECRYPT, Epoch.ONE_RTT)])",
        "same(self._enc_key, old(self._enc_key))",
        _AUTH_BUT_FIN,
        # accepted, and the read key released, only when the received MAC equals the expected one
        "self.g_fin_ok",
        LIVE, _EOF,
    ],
    on_raise={
        ALERT: _FAIL, BRE: _FAIL,
        "CallbackError": ["self.state == old(self.state)", _AUTH_BUT_FIN, "self.g_fin_ok", "same(self._enc_key, old(self._enc_key))"],
    },
    prop=["C11", "C05"],
)

# ------------------------------------------------------------------------------------------------ remaining stubs
R.module_names.update({"ec", "x25519", "x448", "Encoding", "PublicFormat", "os", "struct"})
R.extern_module(
    "cryptography_keys_model.py",
    """
class X25519PrivateKey:
    def exchange(self, peer_public_key) -> bytes: ...
    def public_key(self) -> Any: ...

class X448PrivateKey:
    def exchange(self, peer_public_key) -> bytes: ...
    def public_key(self) -> Any: ...

class EcPrivateKey:
    def exchange(self, algorithm, peer_public_key) -> bytes: ...
    def public_key(self) -> Any: ...

class SigningKey:
    def sign(self, data: bytes, *params) -> bytes: ...
""",
)
# exchange(): ValueError for a low-order / off-curve peer value (X25519, X448: all-zero shared secret) or a curve mismatch (ECDH)
for _k in ("X25519PrivateKey.exchange", "X448PrivateKey.exchange", "EcPrivateKey.exchange"):
    R.contract(_k, params={"peer_public_key": "Any", "algorithm": "Any"}, returns="bytes", raises={"ValueError": None}, **_EXT)
# an EllipticCurvePublicKey (the local one, and a peer key that passed isinstance(.., ec.EllipticCurvePublicKey)) has `curve`
R.consts.setdefault("OPAQUE_HAS_ATTR", {})["curve"] = ["EllipticCurvePublicKey"]
R.contract("EcPrivateKey.public_key", returns="Any", ensures=["isa_opaque(result, 'EllipticCurvePublicKey')"], **_EXT)
# sign(): the parameters are those of signature_algorithm_params for an algorithm that _signature_algorithms_for_private_key
# selected for THIS key type (local configuration): total
R.contract("SigningKey.sign", params={"data": "bytes", "params": "Any"}, returns="bytes", **_EXT)
R.contract("ec.ECDH", returns="Any", **_EXT)
R.contract("X509Certificate.public_bytes", returns="bytes", **_EXT)
R.contract("os.urandom", returns="bytes", ensures=["len(result) == a0"], trusted=True, note="stdlib")
R.contract("struct.unpack", returns="tuple[int]", trusted=True, note="stdlib struct.unpack('I', <4 bytes from os.urandom>): total")
# decode_public_key (16 lines; dispatch on the group code over the module-level table GROUP_TO_CURVE of cryptography curve
# classes - outside the engine's subset): assumed BY READING, its raise set cross-checked natively on random and malformed
# key shares (tools/repro/tls_crypto_stub_probe.py): the three cryptography decoders raise ValueError only, which the
# function converts into AlertIllegalParameter; an unknown group gives None.  `key_share[0]` needs a key share: None
# (a ServerHello WITHOUT the key_share extension) is a TypeError - a precondition that the callers must establish
R.contract("decode_public_key", params={"key_share": "Optional[tuple[int,bytes]]"}, returns="Optional[Any]",
           requires=["key_share is not None"], raises={"AlertIllegalParameter": None}, trusted=True,
           note="tls.py wrapper around cryptography public-key decoding: an opaque key object, None for an unknown group, AlertIllegalParameter for a malformed share")
R.ufunc("key_sig_algs", ["Optional[SigningKey]"], "list[int]")
R.contract("Context._signature_algorithms_for_private_key", returns="list[int]", trusted=True, use_invariant=False,
           ensures=["same(result, key_sig_algs(self.certificate_private_key))", "sigs_known(result)"],
           note="tls.py: classifies the configured private key with isinstance on cryptography types; reads only, result an opaque but FIXED function of the key object (key_sig_algs)")
R.contract("Context._build_session_ticket", params={"other_extensions": "Optional[list[tuple[int,bytes]]]"}, returns="SessionTicket", trusted=True, use_invariant=False,
           requires=["self.key_schedule is not None", "len(new_session_ticket.ticket_nonce) <= 255", "0 <= new_session_ticket.ticket_lifetime < 4294967296"],
           note="tls.py: derives the resumption secret (HKDF-Expand-Label over the ticket nonce, at most 255 bytes) and builds a SessionTicket record (lifetime < 2^32 s fits a timedelta); reads only; total under these bounds (by reading + native probe)")
# KeyScheduleProxy: one KeySchedule per offered cipher suite (ghost g_suites = the list it was built from, g_gen = how often
# extract() ran on all of them); select() is a dict lookup: KeyError for a suite it was not built with
R.contract("KeyScheduleProxy.select", params={"cipher_suite": "int"}, returns="KeySchedule",
           raises={"KeyError": "not int_in(self.g_suites, cipher_suite)"},
           ensures=["result.generation == self.g_gen", "result.cipher_suite == cipher_suite"], **_KS)
for _p in ("certificate", "certificate_verify", "finished", "new_session_ticket", "server_hello", "encrypted_extensions", "certificate_request"):
    R.contract(
        "push_" + _p,
        trusted=True,
        # what the push_* serializers raise for a buffer that is too small: BufferWriteError from the push of a value,
        # BufferReadError from push_block's seek() when not even the length prefix fits (contracts/quic_codecs.py, C17)
        raises={"BufferWriteError": None, "BufferReadError": None},
        modifies=["buf.g_pos", "buf.g_mem"],
        ensures=["buf.g_pos >= old(buf.g_pos)", "buf.g_cap == old(buf.g_cap)"],
        note="tls.py message serializer: trusted stub (appends to the buffer, BufferWriteError / BufferReadError when it is full)",
    )
# negotiate(): first supported value that was offered; otherwise the given alert (or None) - executed at call sites
# (inline contract with the loop invariant, and the standalone raises-iff / first-common contract: contracts/tls_auth.py, C03)

# A.2 WAIT_FLIGHT2 / after the client's authentication messages: compute the expected client Finished, optionally
# issue a session ticket, then wait for Finished.  No traffic key is touched here.
R.contract(
    "Context._server_expect_finished",
    use_invariant=False,
    frame=True,
    requires=["self.key_schedule is not None", "self._dec_key is not None"],
    raises={"CallbackError": None, BWE: None, BRE: None, "MemoryError": None},
    modifies=["self._expected_verify_data", "self.g_fin_base", "self.g_fin_key", "self._new_session_ticket", "self.state", "onertt_buf.g_pos", "onertt_buf.g_mem", _HASH],
    ghost_at={"self._expected_verify_data = self.key_schedule.finished_verify_data(self._dec_key)": {"self.g_fin_base": "self.key_schedule.g_hash", "self.g_fin_key": "self._dec_key"}},
    ensures=[
        "self.state == State.SERVER_EXPECT_FINISHED",
        # (C03) RFC 8446 4.4.4: the client Finished covers the transcript up to, not including, itself; the key is the
        # client handshake traffic secret (_dec_key, untouched here)
        "same(self.g_fin_base, old(self.key_schedule.g_hash)) and self.g_fin_key == old(self._dec_key)",
        "same(self._expected_verify_data, fin_mac(self.g_fin_base, self.g_fin_key))",
        # the transcript only grows (by the anticipated client Finished)
        "hash_extends(self.key_schedule.g_hash, old(self.key_schedule.g_hash))",
    ],
    on_raise={k_: ["self.state == old(self.state)"] for k_ in (CBE, BWE, BRE, "MemoryError")},
    prop=["C11", "C05"],
)

# 4.6.1: NewSessionTicket after the handshake: no state change, no keys
R.contract(
    "Context._client_handle_new_session_ticket",
    frame=True,
    requires=["self.state == State.CLIENT_POST_HANDSHAKE", LIVE] + _MSG(4),
    raises={"AlertUnexpectedMessage": "False", ALERT: None, BRE: None, CBE: None},
    modifies=["input_buf.g_pos"],
    ensures=["self.state == old(self.state)", "len(self.g_key_log) == len(old(self.g_key_log))", "keys_same(self)", "auth_same(self)", LIVE, _EOF],
    on_raise={ALERT: _FAIL, BRE: _FAIL, "CallbackError": _FAIL},
    prop=["C11", "C05"],
)

# A.1 WAIT_SH -ServerHello-> WAIT_EE.  7.1: the handshake secrets exist once the ServerHello is processed; the
# server_handshake_traffic_secret is installed for reading (it protects, and is authenticated by, the rest of the
# flight).  PSK: 4.2.11 "the client MUST verify that the server's selected_identity is within the range supplied
# by the client" - one identity is offered, so identity 0 of an actually offered PSK.
_HELLO_KEEP = "self.g_cv_ok == old(self.g_cv_ok) and self.g_fin_ok == old(self.g_fin_ok) and self._peer_certificate == old(self._peer_certificate) and self._is_client == old(self._is_client)"
R.contract(
    "Context._client_handle_hello",
    frame=True,
    requires=["self.state == State.CLIENT_EXPECT_SERVER_HELLO", LIVE] + _MSG(2),
    raises={"AlertUnexpectedMessage": "False", ALERT: None, BRE: None, CBE: None},
    modifies=["self.key_schedule", "self._session_resumed", "self._key_schedule_psk", "self._key_schedule_proxy", "self._dec_key", "self._enc_key", "self.g_key_log", "self.g_psk_sel", "self.state", "input_buf.g_pos"] + _KS_FIELDS,
    ghost_at={
        "cipher_suite = negotiate(self._cipher_suites, [peer_hello.cipher_suite], AlertHandshakeFailure('Unsupported cipher suite'))": {
            "self.g_psk_sel": "self.g_psk_sel or (self._key_schedule_psk is not None and peer_hello.pre_shared_key is not None and some(peer_hello.pre_shared_key) == 0)"
        }
    },
    loops={0: dict(invariant=["0 <= _i0"])},
    ensures=[
        "self.state == State.CLIENT_EXPECT_ENCRYPTED_EXTENSIONS",
        "same(self.g_key_log, old(self.g_key_log) + [(Direction.DECRYPT, Epoch.HANDSHAKE)])",
        "same(self._enc_key, old(self._enc_key))",
        "self.key_schedule is not None",
        "implies(self._session_resumed and not old(self._session_resumed), self.g_psk_sel)",
        _HELLO_KEEP,
        LIVE, _EOF,
    ],
    on_raise={
        ALERT: ["self.state == old(self.state)", "len(self.g_key_log) == len(old(self.g_key_log))", "keys_same(self)", _HELLO_KEEP],
        BRE: ["self.state == old(self.state)", "len(self.g_key_log) == len(old(self.g_key_log))", "keys_same(self)", _HELLO_KEEP],
        "CallbackError": ["self.state == old(self.state)", "same(self._enc_key, old(self._enc_key))", _HELLO_KEEP],
    },
    prop=["C11", "C05"],
)

# A.1 WAIT_FINISHED -Finished-> CONNECTED.  4.4.4: "Recipients of Finished messages MUST verify that the contents
# are correct and if incorrect MUST terminate the connection with a decrypt_error alert".  7.1: the application
# traffic secrets are released only now: read key, then (after the client's own Finished flight) write key.
R.contract(
    "Context._client_handle_finished",
    frame=True,
    requires=["self.state == State.CLIENT_EXPECT_FINISHED", LIVE] + _MSG(20),
    assume_pre=[CHAIN],  # local configuration (type annotation of Context.certificate_chain), see chain_present
    # BufferWriteError: the caller's HANDSHAKE output buffer is too small for the client's own flight (local certificate chain)
    raises={"AlertUnexpectedMessage": "False", ALERT: None, BRE: None, CBE: None, BWE: None},
    modifies=["self._dec_key", "self._enc_key", "self.g_key_log", "self.g_fin_ok", "self.state", "input_buf.g_pos", "output_buf.g_pos", "output_buf.g_mem"] + _KS_FIELDS,
    # (C03) g_fin_ok: the received verify_data EQUALS (same length, same bytes) the MAC over the transcript AS IT WAS ON
    # ENTRY - before this Finished message - under the server handshake traffic secret; it does not mention the local
    # variable the code compares with
    ghost_at={"self.key_schedule.update_hash(input_buf.data)": {"self.g_fin_ok": "finished.verify_data == fin_mac(old(self.key_schedule.g_hash), old(self._dec_key))"}},
    # (C03) and only then the message itself enters the transcript, whole (everything the parser consumed) and once
    cuts={"assert self.key_schedule.generation == 2": ["hash_fed(self.key_schedule.g_hash, old(self.key_schedule.g_hash), input_buf.g_mem, input_buf.g_pos)", "self.g_fin_ok"]},
    # a loop is not expected here; if one appears nothing is known after it
    loops={"default": dict(invariant=[])},
    ensures=[
        "self.state == State.CLIENT_POST_HANDSHAKE",
        "same(self.g_key_log, old(self.g_key_log) + [(Direction.DECRYPT, Epoch.ONE_RTT)] + [(Direction.ENCRYPT, Epoch.ONE_RTT)])",
        "self.g_fin_ok",
        _AUTH_BUT_FIN,
        LIVE, _EOF,
    ],
    on_raise={
        # nothing is released unless the Finished matched
        ALERT: ["self.state == old(self.state)", _AUTH_BUT_FIN, "len(self.g_key_log) == len(old(self.g_key_log)) or self.g_fin_ok", "same(self.g_key_log, old(self.g_key_log)) or self.g_fin_ok"],
        BRE: ["self.state == old(self.state)", _AUTH_BUT_FIN, "len(self.g_key_log) == len(old(self.g_key_log)) or self.g_fin_ok", "same(self.g_key_log, old(self.g_key_log)) or self.g_fin_ok"],
        BWE: ["self.state == old(self.state)", _AUTH_BUT_FIN, "self.g_fin_ok"],
        "CallbackError": ["self.state == old(self.state)", _AUTH_BUT_FIN, "self.g_fin_ok"],
    },
    prop=["C11", "C05"],
)

# A.2 START -ClientHello-> (flight sent) WAIT_CERT | WAIT_FINISHED.  7.1: both handshake secrets and the server's
# application write secret exist after the server's own Finished; 0-RTT read keys only for an accepted PSK.
R.contract(
    "Context._server_handle_hello",
    requires=["self.state == State.SERVER_EXPECT_CLIENT_HELLO", LIVE] + _MSG(1),
    raises={"AlertUnexpectedMessage": "False", ALERT: None, BRE: None, CBE: None, BWE: None, "MemoryError": None},
    modifies=["self.key_schedule", "self._session_resumed", "self._dec_key", "self._enc_key", "self._next_dec_key", "self.g_key_log", "self.state", "self.alpn_negotiated",
              "self.early_data_accepted", "self.received_extensions", "self._psk_key_exchange_mode", "self._expected_verify_data", "self.g_fin_base", "self.g_fin_key", "self._new_session_ticket",
              "self.client_random", "self.server_random", "self.legacy_session_id", "self._x25519_private_key", "self._x448_private_key", "self._ec_private_keys",
              "Buffer.g_pos[*]", "Buffer.g_mem[*]"] + _KS_FIELDS,
    ensures=[
        "self.state == State.SERVER_EXPECT_CERTIFICATE or self.state == State.SERVER_EXPECT_FINISHED",
        "self.key_schedule is not None",
        _HELLO_KEEP + " and self.g_psk_sel == old(self.g_psk_sel)",
        LIVE, _EOF,
    ],
    on_raise={k_: ["self.state == old(self.state)", _HELLO_KEEP + " and self.g_psk_sel == old(self.g_psk_sel)"] for k_ in (ALERT, BRE, CBE, BWE, "MemoryError")},
    prop=["C11", "C05"],
)

# ------------------------------------------------------------------------------------------------ entry point
# handle_message: reassembly loop around the dispatcher.  Establishes the dispatcher's precondition (nothing is
# dispatched before the ClientHello was sent) and shows that whatever bytes arrive, the class invariant H survives.
R.module_names.add("int")  # only for the attribute form int.from_bytes (int(x) is a builtin of the engine)
if "int.from_bytes" not in R.contracts:  # contracts/quic_codecs.py (C17) gives the exact big-endian value
    R.contract("int.from_bytes", returns="int", ensures=["result >= 0"], trusted=True, note="stdlib int.from_bytes (big endian, unsigned)")
R.field_types("Context", _receive_buffer="bytes")
R.contract(
    "Context._client_send_hello",
    # no peer input is involved (handle_message ignores its input in CLIENT_HANDSHAKE_START); what it can raise is local:
    # the 0-RTT key callback, an output buffer too small for the ClientHello
    raises={"CallbackError": None, BWE: None},
    modifies=["self.state", "self._key_schedule_psk", "self._key_schedule_proxy", "self._x25519_private_key", "self._x448_private_key", "self._ec_private_keys", "self.g_key_log",
              "output_buf.g_pos", "output_buf.g_mem", "KeyScheduleProxy.g_suites[*]", "KeyScheduleProxy.g_gen[*]"] + _KS_FIELDS,
    # (C05) L for the first receive state: the proxy holds one schedule per offered suite, each extracted once (as the PSK schedule)
    ensures=["self.state == State.CLIENT_EXPECT_SERVER_HELLO", "auth_same(self)", "same(self._enc_key, old(self._enc_key)) and same(self._dec_key, old(self._dec_key))", LIVE],
    on_raise={BWE: ["self.state == old(self.state)", "auth_same(self)"], "CallbackError": ["self.state == old(self.state)", "auth_same(self)"]},
    note="NOT verified here (key generation, ClientHello serialisation): contract assumed at handle_message's call site",
)
R.contract(
    "Context.handle_message",
    params={"output_buf": "dict[Epoch,Buffer]"},
    # ASSUMED at entry (see L above): holds after __init__ and after every normal return (ensures below), not after an
    # exceptional one - the caller must not feed a Context again after handle_message raised (QuicConnection: the alert
    # closes the connection, receive_datagram drops everything in the closing / draining states).  The three epoch buffers
    # exist (QuicConnection._initialize@tables, contracts/quic_noraise.py)
    assume_pre=[LIVE, "Epoch.INITIAL in output_buf and Epoch.HANDSHAKE in output_buf and Epoch.ONE_RTT in output_buf"],
    # (C05) THE claim: whatever bytes arrive in whatever state, only tls.Alert subclasses leave - a truncated message
    # (BufferReadError of the parsers) is converted into AlertDecodeError here - plus what is not the peer's doing: an
    # exception of a callback installed by the embedding code (CallbackError), MemoryError (allocation of the message
    # buffer), BufferWriteError (caller's output buffer too small for the LOCAL flight: certificate chain, extensions)
    raises={ALERT: None, CBE: None, BWE: None, "MemoryError": None,
            # local trust configuration that cannot be loaded (verify_certificate, contracts/tls_auth.py)
            "ValueError": None, "Error": None},
    on_raise={"ValueError": ["self._verify_mode != ssl.CERT_NONE and vc_config_bad(self._cadata, self._cafile, self._capath)"],
              "Error": ["self._verify_mode != ssl.CERT_NONE and vc_config_bad(self._cadata, self._cafile, self._capath)"]},
    modifies=[],
    loops={0: dict(invariant=["self.state != State.CLIENT_HANDSHAKE_START", LIVE] + H_MAIN + H_SERVER_AUTH + H_FIN + H_NORAISE, modifies=[
        "self.state", "self._enc_key", "self._dec_key", "self.g_key_log", "self.g_cv_ok", "self.g_psk_sel", "self._session_resumed",
        "self.key_schedule", "self._key_schedule_psk", "self._key_schedule_proxy", "self._peer_certificate", "self._peer_certificate_chain",
        "self._certificate_request", "self.alpn_negotiated", "self.early_data_accepted", "self.received_extensions",
        "self.g_fin_ok", "self.g_fin_base", "self.g_fin_key", "self._expected_verify_data", "self._new_session_ticket", "self._next_dec_key", "self._psk_key_exchange_mode",
        "self.client_random", "self.server_random", "self.legacy_session_id", "self._x25519_private_key", "self._x448_private_key", "self._ec_private_keys",
        "Buffer.g_pos[*]", "Buffer.g_mem[*]", "Buffer.g_cap[*]"] + _KS_FIELDS)},
    ensures=["self.state != State.CLIENT_HANDSHAKE_START", LIVE],
    prop=["C11", "C05"],
)

# construction: establishes H (client: CLIENT_HANDSHAKE_START, server: SERVER_EXPECT_CLIENT_HELLO; nothing verified,
# nothing resumed, no peer certificate, no key schedule)
R.module_names.add("default_backend")
R.extern_module(
    "cryptography_backend_model.py",
    """
class CryptoBackend:
    def ed25519_supported(self) -> bool: ...
    def ed448_supported(self) -> bool: ...
    def x25519_supported(self) -> bool: ...
    def x448_supported(self) -> bool: ...

def default_backend() -> CryptoBackend: ...
""",
)
for _m in ("ed25519_supported", "ed448_supported", "x25519_supported", "x448_supported"):
    R.contract("CryptoBackend." + _m, returns="bool", **_EXT)
R.contract("default_backend", returns="CryptoBackend", **_EXT)
R.field_types(
    "Context",
    _alpn_protocols="Optional[list[str]]",
    _psk_key_exchange_modes="list[int]",
    _supported_groups="list[int]",
)
R.contract(
    "Context.__init__",
    params={"alpn_protocols": "Optional[list[str]]", "cipher_suites": "Optional[list[int]]", "logger": "Optional[Callable]", "verify_mode": "Optional[int]"},
    # local configuration: only cipher suites tls.py has a hash for (CIPHER_SUITES; QuicConfiguration's default is None)
    requires=["cipher_suites is None or suites_known(some(cipher_suites))"],
    ghost_exit={"self.g_cv_ok": "False", "self.g_psk_sel": "False", "self.g_fin_ok": "False"},
    ensures=[
        "self.state == (State.CLIENT_HANDSHAKE_START if is_client else State.SERVER_EXPECT_CLIENT_HELLO)",
        "not self._session_resumed and self._peer_certificate is None and self.key_schedule is None and self._enc_key is None and self._dec_key is None",
        "not self.g_cv_ok and not self.g_psk_sel and not self.g_fin_ok",
        LIVE,
    ],
    prop=["C11", "C05"],
)

# ---- stubs used only by _server_handle_hello
R.contract("Context.get_session_ticket_cb", callback=True, trusted=True, returns="Optional[SessionTicket]", raises={"CallbackError": None}, note="session ticket lookup callback")
R.contract("KeySchedule.__init__", params={"cipher_suite": "int"}, modifies=["self.generation", "self.cipher_suite", "self.g_hash", "self.secret", "self.algorithm", "self.hash", "self.hash_empty_value"],
           # cipher_suite_hash: CIPHER_SUITES[cipher_suite] - KeyError for a suite without a table entry
           raises={"KeyError": "not suite_known(cipher_suite)"}, ensures=["self.generation == 0", "self.cipher_suite == cipher_suite"], **_KS)
R.contract("SessionTicket.is_valid", returns="bool", trusted=True, note="compares the ticket validity window with the wall clock (utcnow): opaque bool")
