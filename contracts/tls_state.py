# Sidecar contracts for src/aioquic/tls.py, class Context  (R is injected by the loader)          property C11
#
# C11: "In every handshake state, only the message types TLS 1.3 permits next are processed and any other type is
# refused with an unexpected-message alert without changing state or installing keys. ... a client never accepts
# Finished without a verified CertificateVerify unless it offered, and the server selected, a pre-shared key.
# Traffic keys for an epoch are released only after the messages that authenticate them were verified."
#
# Sources of the clauses: RFC 8446 section 2 (message flow), section 4 (HandshakeType code points), Appendix A.1 /
# A.2 (client / server state machines), section 4.6 (post-handshake messages), section 7.1 (key schedule: which
# secret exists after which message); RFC 9001 sections 4.4, 6 and 8.3 (QUIC carries neither post-handshake client
# authentication, KeyUpdate nor EndOfEarlyData).  Nothing below is transcribed from tls.py except field names,
# frame lists (`modifies`) and the helper preconditions.
#
# Ghost state of a Context:
#   g_key_log  list of (Direction, Epoch): one entry per invocation of update_traffic_key_cb, in order
#   g_cv_ok    the peer's CertificateVerify signature verified (uninterpreted predicate sig_ok) under the public key
#              of the certificate the peer sent, over the transcript hash at that moment, with the peer's role string
#   g_psk_sel  (client) a PSK had been offered in the ClientHello and the ServerHello selected identity 0
#   g_fin_ok   the peer's Finished verify_data equalled - extensionally: same length, same bytes - the uninterpreted MAC
#              fin_mac(transcript BEFORE that Finished, the peer's handshake traffic secret) (strengthened for C03; on the
#              server through the class invariant H8 over the ghosts g_fin_base / g_fin_key); MAC validity itself stays
#              uninterpreted: the adversary of C11 knows the keys and can make it true

R.module_names.update({"ssl", "x509"})
R.consts["ssl.CERT_NONE"] = 0  # ssl.VerifyMode.CERT_NONE (stdlib constant)
R.consts["ssl.CERT_OPTIONAL"] = 1
R.consts["ssl.CERT_REQUIRED"] = 2
for _a, _t in dict(
    Extension="tuple[int,bytes]", CertificateEntry="tuple[bytes,bytes]", KeyShareEntry="tuple[int,bytes]", PskIdentity="tuple[bytes,int]",
    AlpnHandler="Callable", SessionTicketFetcher="Callable", SessionTicketHandler="Callable",
).items():
    R.type_aliases[_a] = _t

# ------------------------------------------------------------------------------------------------ external objects
R.extern_module(
    "cryptography_model.py",
    """
class X509Certificate:
    def public_key(self) -> CertPublicKey: ...
    def public_bytes(self, encoding) -> bytes: ...

class CertPublicKey:
    def verify(self, signature: bytes, data: bytes, *params) -> None: ...
""",
)
R.field_types("CertPublicKey", g_cert="X509Certificate")

# the only facts used about signatures: validity is SOME fixed predicate of (certificate, signature, signed data,
# algorithm parameters); the signed data is SOME fixed function of (transcript so far, role string)
R.ufunc("sig_ok", ["X509Certificate", "bytes", "bytes", "Any"], "bool")
R.ufunc("sig_params", ["int"], "Any")
R.ufunc("cv_data", ["bytes", "bytes"], "bytes")

_EXT = dict(trusted=True, note="third-party (cryptography) call: trusted stub, may raise")
R.contract("X509Certificate.public_key", returns="CertPublicKey", raises={"Exception": None}, ensures=["result.g_cert == self"], **_EXT)
R.contract(
    "CertPublicKey.verify",
    params={"signature": "bytes", "data": "bytes", "params": "Any"},
    # cryptography: verify() returns None when the signature is valid and raises InvalidSignature otherwise
    raises={"Exception": None, "InvalidSignature": "not sig_ok(self.g_cert, signature, data, params)"},
    **_EXT,
)
R.contract(
    "signature_algorithm_params",
    returns="Any",
    raises={"Exception": None},
    ensures=["result == sig_params(signature_algorithm)"],
    trusted=True,
    note="tls.py helper building cryptography padding/hash objects: a deterministic function of the algorithm code (KeyError for unknown codes)",
)
# verify_certificate: under contract in contracts/tls_auth.py (C03): which certificates the verifier trusted, dates and name
# check, every verification failure an Alert

# ------------------------------------------------------------------------------------------------ key schedule
R.field_types("KeySchedule", algorithm="Any", cipher_suite="CipherSuite", generation="int", hash="Any", hash_empty_value="bytes", secret="bytes", g_hash="bytes")
_KS = dict(trusted=True, note="KeySchedule wraps cryptography hash/HKDF objects: stub (g_hash = bytes fed to the transcript hash so far)")
R.contract("KeySchedule.update_hash", params={"data": "bytes"}, modifies=["self.g_hash"], ensures=["same(self.g_hash, old(self.g_hash) + data)"], **_KS)
R.contract("KeySchedule.extract", params={"key_material": "Optional[bytes]"}, modifies=["self.generation", "self.secret"], ensures=["self.generation == old(self.generation) + 1"], **_KS)
R.contract("KeySchedule.derive_secret", returns="bytes", raises={"Exception": None}, **_KS)
# (C03) the Finished MAC (RFC 8446 4.4.4: HMAC(finished_key(secret), Transcript-Hash)) is SOME fixed function of the
# bytes hashed so far and the base secret - nothing else is used about it
R.ufunc("fin_mac", ["bytes", "Optional[bytes]"], "bytes")
R.contract("KeySchedule.finished_verify_data", params={"secret": "Optional[bytes]"}, returns="bytes", raises={"Exception": None},
           ensures=["same(result, fin_mac(self.g_hash, secret))"], **_KS)
R.contract("KeySchedule.certificate_verify_data", returns="bytes", ensures=["same(result, cv_data(self.g_hash, context_string))"], **_KS)

# ------------------------------------------------------------------------------------------------ message parsers
R.field_types("EncryptedExtensions", alpn_protocol="Optional[str]", early_data="bool", other_extensions="list[tuple[int,bytes]]")
R.field_types("Certificate", request_context="bytes", certificates="list[tuple[bytes,bytes]]")
R.field_types("CertificateRequest", request_context="bytes", signature_algorithms="Optional[list[int]]", other_extensions="list[tuple[int,bytes]]")
R.field_types("CertificateVerify", algorithm="int", signature="bytes")
R.field_types("Finished", verify_data="bytes")
# the message parsers pull_<message> are under exception-effect contracts of their own (contracts/tls_noraise.py, C05):
# they raise only BufferReadError / tls.Alert subclasses, move only the read position and return a new message object

# ------------------------------------------------------------------------------------------------ Context
R.field_types(
    "Context",
    state="State",
    _is_client="bool",
    _session_resumed="bool",
    key_schedule="Optional[KeySchedule]",
    _key_schedule_psk="Optional[KeySchedule]",
    _enc_key="Optional[bytes]",
    _dec_key="Optional[bytes]",
    _next_dec_key="Optional[bytes]",
    _expected_verify_data="bytes",
    _peer_certificate="Optional[X509Certificate]",
    _peer_certificate_chain="list[X509Certificate]",
    _certificate_request="Optional[CertificateRequest]",
    _verify_mode="int",
    _cadata="Optional[bytes]",
    _cafile="Optional[str]",
    _capath="Optional[str]",
    _server_name="Optional[str]",
    _signature_algorithms="list[int]",
    alpn_negotiated="Optional[str]",
    early_data_accepted="bool",
    received_extensions="Optional[list[tuple[int,bytes]]]",
    alpn_cb="Optional[Callable]",
    get_session_ticket_cb="Optional[Callable]",
    new_session_ticket_cb="Optional[Callable]",
    update_traffic_key_cb="Callable",
    _Context__logger="Optional[Callable]",  # logging.Logger: an opaque handle, only its presence is tested
    g_key_log="list[tuple[Direction,Epoch]]",
    g_cv_ok="bool",
    g_psk_sel="bool",
    g_fin_ok="bool",
    g_fin_base="bytes",  # (C03, server) the transcript at the moment the expected client Finished was computed
    g_fin_key="Optional[bytes]",  # (C03, server) the secret it was computed with (client handshake traffic secret)
    _new_session_ticket="Optional[NewSessionTicket]",
    _request_client_certificate="bool",
    _psk_key_exchange_mode="Optional[int]",
    _max_early_data="Optional[int]",
    _cipher_suites="list[int]",
    _legacy_compression_methods="list[int]",
    _supported_versions="list[int]",
    handshake_extensions="list[tuple[int,bytes]]",
    client_random="Optional[bytes]",
    server_random="Optional[bytes]",
    legacy_session_id="Optional[bytes]",
    _x25519_private_key="Optional[X25519PrivateKey]",
    _x448_private_key="Optional[X448PrivateKey]",
    _ec_private_keys="list[EcPrivateKey]",
    _key_schedule_proxy="Optional[KeyScheduleProxy]",
    certificate="Optional[X509Certificate]",
    certificate_chain="list[Optional[X509Certificate]]",
    certificate_private_key="Optional[SigningKey]",
    session_ticket="Optional[SessionTicket]",
)

# callbacks installed by the embedding code (QuicConnection._update_traffic_key / _alpn_handler / session ticket hooks
# or user code).  Opaque: they touch nothing of the Context; each invocation of update_traffic_key_cb is recorded in
# g_key_log (whether or not it raises).
R.contract(
    "Context.update_traffic_key_cb",
    callback=True,
    trusted=True,
    raises={"CallbackError": None},
    modifies=["self.g_key_log"],
    ensures=["same(self.g_key_log, old(self.g_key_log) + [(a0, a1)])"],
    on_raise={"CallbackError": ["same(self.g_key_log, old(self.g_key_log) + [(a0, a1)])"]},
    note="traffic-key release callback: ghost log append",
)
R.contract("Context.alpn_cb", callback=True, trusted=True, raises={"CallbackError": None}, note="ALPN notification callback")
R.contract("Context.new_session_ticket_cb", callback=True, trusted=True, raises={"CallbackError": None}, note="session ticket handler callback")

R.spec(
    """
def is_client_state(s):
    return (s == State.CLIENT_HANDSHAKE_START or s == State.CLIENT_EXPECT_SERVER_HELLO or s == State.CLIENT_EXPECT_ENCRYPTED_EXTENSIONS
            or s == State.CLIENT_EXPECT_CERTIFICATE_REQUEST_OR_CERTIFICATE or s == State.CLIENT_EXPECT_CERTIFICATE
            or s == State.CLIENT_EXPECT_CERTIFICATE_VERIFY or s == State.CLIENT_EXPECT_FINISHED or s == State.CLIENT_POST_HANDSHAKE)

def is_server_state(s):
    return (s == State.SERVER_EXPECT_CLIENT_HELLO or s == State.SERVER_EXPECT_CERTIFICATE or s == State.SERVER_EXPECT_CERTIFICATE_VERIFY
            or s == State.SERVER_EXPECT_FINISHED or s == State.SERVER_POST_HANDSHAKE)

def legal_next(s, mt):
    '''RFC 8446 A.1/A.2 + 4.6 (+ RFC 9001 4.4/6/8.3): the handshake message types (RFC 8446 section 4 code points:
    client_hello 1, server_hello 2, new_session_ticket 4, end_of_early_data 5, encrypted_extensions 8, certificate 11,
    certificate_request 13, certificate_verify 15, finished 20, key_update 24) that may be processed in state s.
    A.1: START -(send CH)-> WAIT_SH -SH-> WAIT_EE -EE-> WAIT_CERT_CR | WAIT_FINISHED(psk); WAIT_CERT_CR -CR-> WAIT_CERT,
    -Cert-> WAIT_CV; WAIT_CERT -Cert-> WAIT_CV -CV-> WAIT_FINISHED -Fin-> CONNECTED (then only NewSessionTicket: no
    post-handshake auth was offered, KeyUpdate is forbidden in QUIC).  A.2: START -CH-> ... WAIT_FLIGHT2 -> WAIT_CERT
    -Cert-> WAIT_CV | WAIT_FINISHED(empty); WAIT_CV -CV-> WAIT_FINISHED -Fin-> CONNECTED (then nothing; EndOfEarlyData
    is not used with QUIC).  Before the ClientHello is sent a client can process nothing.'''
    return ((s == State.CLIENT_EXPECT_SERVER_HELLO and mt == 2)
            or (s == State.CLIENT_EXPECT_ENCRYPTED_EXTENSIONS and mt == 8)
            or (s == State.CLIENT_EXPECT_CERTIFICATE_REQUEST_OR_CERTIFICATE and (mt == 13 or mt == 11))
            or (s == State.CLIENT_EXPECT_CERTIFICATE and mt == 11)
            or (s == State.CLIENT_EXPECT_CERTIFICATE_VERIFY and mt == 15)
            or (s == State.CLIENT_EXPECT_FINISHED and mt == 20)
            or (s == State.CLIENT_POST_HANDSHAKE and mt == 4)
            or (s == State.SERVER_EXPECT_CLIENT_HELLO and mt == 1)
            or (s == State.SERVER_EXPECT_CERTIFICATE and mt == 11)
            or (s == State.SERVER_EXPECT_CERTIFICATE_VERIFY and mt == 15)
            or (s == State.SERVER_EXPECT_FINISHED and mt == 20))

def legal_succ(s, mt, t, resumed, has_peer_cert):
    '''the state t reached after processing message mt in state s (same sources)'''
    return ((s == State.CLIENT_EXPECT_SERVER_HELLO and t == State.CLIENT_EXPECT_ENCRYPTED_EXTENSIONS)
            or (s == State.CLIENT_EXPECT_ENCRYPTED_EXTENSIONS and t == (State.CLIENT_EXPECT_FINISHED if resumed else State.CLIENT_EXPECT_CERTIFICATE_REQUEST_OR_CERTIFICATE))
            or (s == State.CLIENT_EXPECT_CERTIFICATE_REQUEST_OR_CERTIFICATE and mt == 13 and t == State.CLIENT_EXPECT_CERTIFICATE)
            or (s == State.CLIENT_EXPECT_CERTIFICATE_REQUEST_OR_CERTIFICATE and mt == 11 and t == State.CLIENT_EXPECT_CERTIFICATE_VERIFY)
            or (s == State.CLIENT_EXPECT_CERTIFICATE and t == State.CLIENT_EXPECT_CERTIFICATE_VERIFY)
            or (s == State.CLIENT_EXPECT_CERTIFICATE_VERIFY and t == State.CLIENT_EXPECT_FINISHED)
            or (s == State.CLIENT_EXPECT_FINISHED and t == State.CLIENT_POST_HANDSHAKE)
            or (s == State.CLIENT_POST_HANDSHAKE and t == State.CLIENT_POST_HANDSHAKE)
            or (s == State.SERVER_EXPECT_CLIENT_HELLO and (t == State.SERVER_EXPECT_CERTIFICATE or t == State.SERVER_EXPECT_FINISHED))
            or (s == State.SERVER_EXPECT_CERTIFICATE and t == (State.SERVER_EXPECT_CERTIFICATE_VERIFY if has_peer_cert else State.SERVER_EXPECT_FINISHED))
            or (s == State.SERVER_EXPECT_CERTIFICATE_VERIFY and t == State.SERVER_EXPECT_FINISHED)
            or (s == State.SERVER_EXPECT_FINISHED and t == State.SERVER_POST_HANDSHAKE))

def hash_fed(h1, h0, m, n):
    '''(C03) transcript h1 = transcript h0 followed by the first n bytes of m (and nothing else)'''
    return (len(h1) == len(h0) + n
            and forall(lambda k: implies(0 <= k < len(h0), elem(h1, k) == elem(h0, k)))
            and forall(lambda k: implies(0 <= k < n, elem(h1, len(h0) + k) == elem(m, k))))

def hash_extends(h1, h0):
    '''(C03) the transcript only grew: h0 is a prefix of h1'''
    return len(h1) >= len(h0) and forall(lambda k: implies(0 <= k < len(h0), elem(h1, k) == elem(h0, k)))

def keys_same(c):
    return same(c.g_key_log, old(c.g_key_log)) and same(c._enc_key, old(c._enc_key)) and same(c._dec_key, old(c._dec_key))

def auth_same(c):
    return (c.g_cv_ok == old(c.g_cv_ok) and c.g_fin_ok == old(c.g_fin_ok) and c.g_psk_sel == old(c.g_psk_sel) and c._session_resumed == old(c._session_resumed)
            and c._peer_certificate == old(c._peer_certificate) and c._is_client == old(c._is_client) and c.key_schedule == old(c.key_schedule))

def cv_checked(c, verify):
    '''the CertificateVerify check of RFC 8446 4.4.3: advertised algorithm, signature valid under the peer
    certificate over (transcript hash, role string of the PEER)'''
    return (verify.algorithm in c._signature_algorithms
            and sig_ok(some(c._peer_certificate), verify.signature,
                       cv_data(some(c.key_schedule).g_hash, SERVER_CONTEXT_STRING if c._is_client else CLIENT_CONTEXT_STRING),
                       sig_params(verify.algorithm)))
"""
)

# class invariant H (all message histories): see the lemma in engine/props.py
H_MAIN = [
        # H0 the role never changes
        "self._is_client == is_client_state(self.state) and (is_client_state(self.state) or is_server_state(self.state))",
        # H1 client: Finished is awaited / was accepted only after a verified CertificateVerify or with a resumed session
        "implies(self.state == State.CLIENT_EXPECT_FINISHED or self.state == State.CLIENT_POST_HANDSHAKE, self.g_cv_ok or self._session_resumed)",
        # H2 client: a session counts as resumed only if a PSK was offered and the server selected it
        "implies(self._is_client and self._session_resumed, self.g_psk_sel)",
        # H3 the key schedule exists once a hello was processed
        "implies(self.state != State.CLIENT_HANDSHAKE_START and self.state != State.CLIENT_EXPECT_SERVER_HELLO and self.state != State.SERVER_EXPECT_CLIENT_HELLO, self.key_schedule is not None)",
        # H5 no verification is credited before a CertificateVerify was processed
        "implies(self.state != State.CLIENT_EXPECT_FINISHED and self.state != State.CLIENT_POST_HANDSHAKE and self.state != State.SERVER_EXPECT_FINISHED and self.state != State.SERVER_POST_HANDSHAKE, not self.g_cv_ok)",
        # H7 the handshake is complete only after the peer's Finished matched
        "implies(self.state == State.CLIENT_POST_HANDSHAKE or self.state == State.SERVER_POST_HANDSHAKE, self.g_fin_ok)",
]
R.invariant("Context", H_MAIN)
# ---- SERVER-SIDE ANALOGUE (separate list).  H6 is REFUTED on the unchanged tree for _server_handle_certificate
# (obligation inv-on-raise.Exception.7): genuine finding, reproduced natively - a Certificate message whose second chain
# entry is not DER makes _set_peer_certificate raise ValueError (not a tls.Alert) after _peer_certificate was stored,
# the state stays SERVER_EXPECT_CERTIFICATE; a following empty Certificate + Finished complete the handshake with a
# peer certificate for which no CertificateVerify was ever processed.  Recorded in known_findings.json; every other
# function still proves H4/H6.
H_SERVER_AUTH = [
    # H4 server: a client that presented a certificate reaches Finished only through a verified CertificateVerify
    "implies((self.state == State.SERVER_EXPECT_FINISHED or self.state == State.SERVER_POST_HANDSHAKE) and self._peer_certificate is not None, self.g_cv_ok)",
    # H6 server: no peer certificate before the client's Certificate message was accepted
    "implies(self.state == State.SERVER_EXPECT_CLIENT_HELLO or self.state == State.SERVER_EXPECT_CERTIFICATE, self._peer_certificate is None)",
]
R.invariant("Context", H_SERVER_AUTH)
# ---- (C03) H8 server: while the client's Finished is awaited, the stored expected verify_data IS the MAC over the
# transcript as it stood before that Finished (g_fin_base), under the client handshake traffic secret
H_FIN = [
    "implies(self.state == State.SERVER_EXPECT_FINISHED, same(self._expected_verify_data, fin_mac(self.g_fin_base, self.g_fin_key)))",
]
R.invariant("Context", H_FIN)

_NOUM = {"AlertUnexpectedMessage": "False"}  # handlers never produce the dispatcher's alert themselves
_KS_FIELDS = ["KeySchedule.g_hash[*]", "KeySchedule.generation[*]", "KeySchedule.secret[*]"]

# ---- helpers (called in the middle of a transition: no class invariant at their boundary)
R.contract(
    "Context._set_state",
    inline=True,
    use_invariant=False,
    frame=True,
    modifies=["self.state"],
    ensures=["self.state == state"],
    prop=["C11"],
)

# RFC 8446 7.1/7.3: the traffic secret for (direction, epoch) is derived from the current key schedule and handed to the
# record layer; this is the ONLY function through which handshake-epoch keys leave the context.
R.contract(
    "Context._setup_traffic_protection",
    use_invariant=False,
    frame=True,
    requires=["self.key_schedule is not None"],
    raises={"CallbackError": None, "Exception": None},
    modifies=["self._enc_key", "self._dec_key", "self.g_key_log"],
    ensures=[
        "same(self.g_key_log, old(self.g_key_log) + [(direction, epoch)])",
        "implies(direction == Direction.ENCRYPT, self._enc_key is not None and same(self._dec_key, old(self._dec_key)))",
        "implies(direction != Direction.ENCRYPT, self._dec_key is not None and same(self._enc_key, old(self._enc_key)))",
    ],
    on_raise={
        "Exception": ["len(self.g_key_log) == len(old(self.g_key_log))", "keys_same(self)"],
        "CallbackError": [
            "same(self.g_key_log, old(self.g_key_log) + [(direction, epoch)])",
            "implies(direction == Direction.ENCRYPT, same(self._dec_key, old(self._dec_key)))",
            "implies(direction != Direction.ENCRYPT, same(self._enc_key, old(self._enc_key)))",
        ],
    },
    prop=["C11"],
)

# RFC 8446 4.4.3: "If the verification fails, the receiver MUST terminate the handshake with a decrypt_error alert";
# the algorithm must be one the receiver offered.  Raised exactly when the check fails; returns only when it passed.
R.contract(
    "Context._check_certificate_verify_signature",
    use_invariant=False,
    frame=True,
    raises={"AlertDecryptError": "not cv_checked(self, verify)", "Exception": None},
    modifies=[],
    prop=["C11"],
)

# ---- the dispatcher
_SEC_SAME = [
    "self.state == old(self.state)",
    "len(self.g_key_log) == len(old(self.g_key_log))", "keys_same(self)",
    "auth_same(self)",
]
R.contract(
    "Context._handle_reassembled_message",
    params={"output_buf": "dict[Epoch,Buffer]"},
    frame=True,
    # handle_message never dispatches before the ClientHello was sent (it returns early in CLIENT_HANDSHAKE_START)
    requires=["self.state != State.CLIENT_HANDSHAKE_START"],
    raises={
        "AlertUnexpectedMessage": "not legal_next(self.state, message_type)",
        "CallbackError": None,
        "AssertionError": None,
        "Exception": None,
    },
    on_raise={
        # refused: nothing happened at all
        "AlertUnexpectedMessage": _SEC_SAME
        + [
            "some(self.key_schedule).g_hash == old(some(self.key_schedule).g_hash) or self.key_schedule is None",
            "input_buf.g_pos == old(input_buf.g_pos)",
            "self.alpn_negotiated == old(self.alpn_negotiated) and self.early_data_accepted == old(self.early_data_accepted)",
        ],
        # any other failure concerns a LEGAL message, and the state is not advanced
        "Exception": ["legal_next(old(self.state), message_type)", "self.state == old(self.state)"],
        "CallbackError": ["legal_next(old(self.state), message_type)", "self.state == old(self.state)"],
        "AssertionError": ["legal_next(old(self.state), message_type)"],
    },
    modifies=[
        "self.state", "self._enc_key", "self._dec_key", "self.g_key_log", "self.g_cv_ok", "self.g_psk_sel", "self._session_resumed",
        "self.key_schedule", "self._key_schedule_psk", "self._key_schedule_proxy", "self._peer_certificate", "self._peer_certificate_chain",
        "self._certificate_request", "self.alpn_negotiated", "self.early_data_accepted", "self.received_extensions",
        "self.g_fin_ok", "self.g_fin_base", "self.g_fin_key", "self._expected_verify_data", "self._new_session_ticket", "self._next_dec_key", "self._psk_key_exchange_mode",
        "self.client_random", "self.server_random", "self.legacy_session_id", "self._x25519_private_key", "self._x448_private_key", "self._ec_private_keys",
        "Buffer.g_pos[*]", "Buffer.g_mem[*]",
    ] + _KS_FIELDS,
    ensures=[
        "legal_next(old(self.state), message_type)",
        "legal_succ(old(self.state), message_type, self.state, old(self._session_resumed), self._peer_certificate is not None)",
        "self._is_client == old(self._is_client)",
        # key release per processed message (RFC 8446 7.1: handshake secrets exist after ServerHello; application
        # secrets after the server Finished; the client's read/write application keys only after it verified it)
        "implies(message_type == 11 or message_type == 13 or message_type == 15 or message_type == 4, keys_same(self))",
        "implies(old(self.state) == State.CLIENT_EXPECT_SERVER_HELLO, same(self.g_key_log, old(self.g_key_log) + [(Direction.DECRYPT, Epoch.HANDSHAKE)]))",
        "implies(old(self.state) == State.CLIENT_EXPECT_ENCRYPTED_EXTENSIONS, same(self.g_key_log, old(self.g_key_log) + [(Direction.ENCRYPT, Epoch.HANDSHAKE)]))",
        "implies(old(self.state) == State.CLIENT_EXPECT_FINISHED, same(self.g_key_log, old(self.g_key_log) + [(Direction.DECRYPT, Epoch.ONE_RTT)] + [(Direction.ENCRYPT, Epoch.ONE_RTT)]))",
        "implies(old(self.state) == State.SERVER_EXPECT_FINISHED, same(self.g_key_log, old(self.g_key_log) + [(Direction.DECRYPT, Epoch.ONE_RTT)]))",
        # application-data read keys are released only by a matching Finished
        "implies(old(self.state) == State.CLIENT_EXPECT_FINISHED or old(self.state) == State.SERVER_EXPECT_FINISHED, self.g_fin_ok)",
    ],
    prop=["C11"],
)

# ------------------------------------------------------------------------------------------------ handlers
# Every handler: is entered only in the state(s) of `requires` (proved at the dispatcher's call sites), never raises
# the unexpected-message alert itself, and on ANY failure leaves the state where it was.
_FAIL = ["self.state == old(self.state)", "len(self.g_key_log) == len(old(self.g_key_log))", "keys_same(self)", "auth_same(self)"]
_HASH = "self.key_schedule.g_hash"
# (C03) transcript integrity of a receive handler: the running hash was fed exactly the bytes of the message the parser
# consumed (Buffer.data = g_mem[:g_pos]; the dispatcher asserts g_pos == g_cap afterwards: the whole message), once, after
# everything that was there before, and nothing else
_T_FED = "hash_fed(self.key_schedule.g_hash, old(self.key_schedule.g_hash), input_buf.g_mem, input_buf.g_pos)"
R.contract(
    "x509.load_der_x509_certificate",
    returns="X509Certificate",
    raises={"Exception": None},
    trusted=True,
    note="cryptography: DER parser, returns a certificate object or raises",
)

R.contract(
    "Context._set_peer_certificate",
    use_invariant=False,
    frame=True,
    raises={"Exception": None},
    modifies=["self._peer_certificate", "self._peer_certificate_chain"],
    ensures=["self._peer_certificate is not None"],
    prop=["C11"],
)

# A.1 WAIT_EE: EncryptedExtensions; then WAIT_FINISHED when the PSK is in use, WAIT_CERT_CR otherwise.
# 7.1: client_handshake_traffic_secret becomes available (sending keys for the client's Finished flight).
R.contract(
    "Context._client_handle_encrypted_extensions",
    frame=True,
    requires=["self.state == State.CLIENT_EXPECT_ENCRYPTED_EXTENSIONS"],
    raises=dict(_NOUM, CallbackError=None, Exception=None),
    modifies=["self.alpn_negotiated", "self.early_data_accepted", "self.received_extensions", "self._enc_key", "self._dec_key", "self.g_key_log", "self.state", "input_buf.g_pos", _HASH],
    ensures=[
        "self.state == (State.CLIENT_EXPECT_FINISHED if old(self._session_resumed) else State.CLIENT_EXPECT_CERTIFICATE_REQUEST_OR_CERTIFICATE)",
        "same(self.g_key_log, old(self.g_key_log) + [(Direction.ENCRYPT, Epoch.HANDSHAKE)])",
        "same(self._dec_key, old(self._dec_key))",
        "auth_same(self)",
        _T_FED,
    ],
    on_raise={
        "Exception": _FAIL,
        "CallbackError": ["self.state == old(self.state)", "auth_same(self)", "same(self._dec_key, old(self._dec_key))",
                          "same(self.g_key_log, old(self.g_key_log)) or same(self.g_key_log, old(self.g_key_log) + [(Direction.ENCRYPT, Epoch.HANDSHAKE)])"],
    },
    prop=["C11"],
)

# A.1 WAIT_CERT_CR -CertificateRequest-> WAIT_CERT
R.contract(
    "Context._client_handle_certificate_request",
    frame=True,
    requires=["self.state == State.CLIENT_EXPECT_CERTIFICATE_REQUEST_OR_CERTIFICATE"],
    raises=dict(_NOUM, Exception=None),
    modifies=["self._certificate_request", "self.state", "input_buf.g_pos", _HASH],
    ensures=["self.state == State.CLIENT_EXPECT_CERTIFICATE", "len(self.g_key_log) == len(old(self.g_key_log))", "keys_same(self)", "auth_same(self)", _T_FED],
    on_raise={"Exception": _FAIL},
    prop=["C11"],
)

# A.1 WAIT_CERT_CR / WAIT_CERT -Certificate-> WAIT_CV
_AUTH_BUT_FIN = "self.g_cv_ok == old(self.g_cv_ok) and self.g_psk_sel == old(self.g_psk_sel) and self._session_resumed == old(self._session_resumed) and self._peer_certificate == old(self._peer_certificate) and self._is_client == old(self._is_client) and self.key_schedule == old(self.key_schedule)"
_AUTH_BUT_CERT = "self.g_cv_ok == old(self.g_cv_ok) and self.g_fin_ok == old(self.g_fin_ok) and self.g_psk_sel == old(self.g_psk_sel) and self._session_resumed == old(self._session_resumed) and self._is_client == old(self._is_client) and self.key_schedule == old(self.key_schedule)"
R.contract(
    "Context._client_handle_certificate",
    frame=True,
    requires=["self.state == State.CLIENT_EXPECT_CERTIFICATE_REQUEST_OR_CERTIFICATE or self.state == State.CLIENT_EXPECT_CERTIFICATE"],
    raises=dict(_NOUM, Exception=None),
    modifies=["self._peer_certificate", "self._peer_certificate_chain", "self.state", "input_buf.g_pos", _HASH],
    ensures=["self.state == State.CLIENT_EXPECT_CERTIFICATE_VERIFY", "len(self.g_key_log) == len(old(self.g_key_log))", "keys_same(self)", _AUTH_BUT_CERT, "self._peer_certificate is not None", _T_FED],
    on_raise={"Exception": ["self.state == old(self.state)", "len(self.g_key_log) == len(old(self.g_key_log))", "keys_same(self)", _AUTH_BUT_CERT]},
    prop=["C11"],
)

# A.1 WAIT_CV -CertificateVerify-> WAIT_FINISHED, and ONLY with a valid signature (4.4.3).  g_cv_ok records the
# outcome of the check on the entry transcript; H1/H5 then force it to be true.
R.contract(
    "Context._client_handle_certificate_verify",
    frame=True,
    requires=["self.state == State.CLIENT_EXPECT_CERTIFICATE_VERIFY"],
    raises=dict(_NOUM, Exception=None),
    modifies=["self.g_cv_ok", "self.state", "input_buf.g_pos", _HASH],
    ghost_exit={"self.g_cv_ok": "old(cv_checked(self, verify))"},
    ensures=[
        "self.state == State.CLIENT_EXPECT_FINISHED",
        "self.g_cv_ok",
        "len(self.g_key_log) == len(old(self.g_key_log))", "keys_same(self)",
        "self.g_fin_ok == old(self.g_fin_ok) and self.g_psk_sel == old(self.g_psk_sel) and self._session_resumed == old(self._session_resumed) and self._peer_certificate == old(self._peer_certificate) and self._is_client == old(self._is_client) and self.key_schedule == old(self.key_schedule)",
        _T_FED,  # the signature was checked over the transcript BEFORE this message (g_cv_ok = old(cv_checked)), then the message entered it
        # (C03) unless verification is switched off, WAIT_FINISHED is reached only with a leaf certificate that is within its
        # validity period, matches the name this client asked for and chains to a CONFIGURED trust anchor, the server's
        # extra certificates serving as untrusted intermediates only (contracts/tls_auth.py, verify_certificate)
        "implies(self._verify_mode != ssl.CERT_NONE, self._peer_certificate is not None and not vc_expired(self._peer_certificate) and not vc_name_bad(self._peer_certificate, self._server_name)"
        " and vc_chain_ok(self._peer_certificate, self._peer_certificate_chain, self._cadata, self._cafile, self._capath))",
    ],
    on_raise={"Exception": _FAIL},
    prop=["C11"],
)

# A.2 WAIT_CERT -Certificate-> WAIT_CV (non-empty) | WAIT_FINISHED (empty: "no client auth")
R.contract(
    "Context._server_handle_certificate",
    frame=True,
    requires=["self.state == State.SERVER_EXPECT_CERTIFICATE"],
    raises=dict(_NOUM, CallbackError=None, Exception=None),
    modifies=["self._peer_certificate", "self._peer_certificate_chain", "self.state", "self._expected_verify_data", "self.g_fin_base", "self.g_fin_key", "self._new_session_ticket", "input_buf.g_pos", "output_buf.g_pos", "output_buf.g_mem", _HASH],
    ensures=[
        "self.state == (State.SERVER_EXPECT_CERTIFICATE_VERIFY if self._peer_certificate is not None else State.SERVER_EXPECT_FINISHED)",
        "len(self.g_key_log) == len(old(self.g_key_log))", "keys_same(self)",
        _AUTH_BUT_CERT,
        "implies(self.state == State.SERVER_EXPECT_CERTIFICATE_VERIFY, %s)" % _T_FED,
        "hash_extends(self.key_schedule.g_hash, old(self.key_schedule.g_hash))",
    ],
    cuts={"if certificate.certificates:": [_T_FED]},
    on_raise={"Exception": ["self.state == old(self.state)", "len(self.g_key_log) == len(old(self.g_key_log))", "keys_same(self)", _AUTH_BUT_CERT], "CallbackError": ["self.state == old(self.state)", "len(self.g_key_log) == len(old(self.g_key_log))", "keys_same(self)", _AUTH_BUT_CERT]},
    prop=["C11"],
)

# A.2 WAIT_CV -CertificateVerify-> WAIT_FINISHED, only with a valid signature (client role string)
R.contract(
    "Context._server_handle_certificate_verify",
    frame=True,
    requires=["self.state == State.SERVER_EXPECT_CERTIFICATE_VERIFY"],
    raises=dict(_NOUM, CallbackError=None, Exception=None),
    modifies=["self.g_cv_ok", "self.state", "self._expected_verify_data", "self.g_fin_base", "self.g_fin_key", "self._new_session_ticket", "input_buf.g_pos", "output_buf.g_pos", "output_buf.g_mem", _HASH],
    ghost_exit={"self.g_cv_ok": "old(cv_checked(self, verify))"},
    cuts={"self._server_expect_finished(output_buf)": [_T_FED]},
    ensures=[
        "self.state == State.SERVER_EXPECT_FINISHED",
        "self.g_cv_ok",
        "len(self.g_key_log) == len(old(self.g_key_log))", "keys_same(self)",
        "self.g_fin_ok == old(self.g_fin_ok) and self.g_psk_sel == old(self.g_psk_sel) and self._session_resumed == old(self._session_resumed) and self._peer_certificate == old(self._peer_certificate) and self._is_client == old(self._is_client) and self.key_schedule == old(self.key_schedule)",
    ],
    on_raise={"Exception": _FAIL, "CallbackError": ["self.state == old(self.state)", "len(self.g_key_log) == len(old(self.g_key_log))", "keys_same(self)"]},
    prop=["C11"],
)

# A.2 WAIT_FINISHED -Finished-> CONNECTED; 7.1: the client application traffic secret is installed for reading only now
R.contract(
    "Context._server_handle_finished",
    frame=True,
    requires=["self.state == State.SERVER_EXPECT_FINISHED"],
    raises=dict(_NOUM, CallbackError=None, Exception=None),
    modifies=["self._dec_key", "self._next_dec_key", "self.g_key_log", "self.g_fin_ok", "self.state", "input_buf.g_pos"],
    # g_fin_ok := outcome of the comparison, recorded where the key is about to be committed
    # (C03: extensional equality, length included, with the MAC over the transcript before the client Finished - H8)
    ghost_at={"self._dec_key = self._next_dec_key": {"self.g_fin_ok": "finished.verify_data == fin_mac(self.g_fin_base, self.g_fin_key)"}},
    ensures=[
        "self.state == State.SERVER_POST_HANDSHAKE",
        "same(self.g_key_log, old(self.g_key_log) + [(Direction.DECRYPT, Epoch.ONE_RTT)])",
        "same(self._enc_key, old(self._enc_key))",
        _AUTH_BUT_FIN,
        # accepted, and the read key released, only when the received MAC equals the expected one
        "self.g_fin_ok",
    ],
    on_raise={
        "Exception": _FAIL,
        "CallbackError": ["self.state == old(self.state)", _AUTH_BUT_FIN, "self.g_fin_ok", "same(self._enc_key, old(self._enc_key))"],
    },
    prop=["C11"],
)

# ------------------------------------------------------------------------------------------------ remaining stubs
R.module_names.update({"ec", "x25519", "x448", "Encoding", "PublicFormat", "os", "struct"})
R.extern_module(
    "cryptography_keys_model.py",
    """
class X25519PrivateKey:
    def exchange(self, peer_public_key) -> bytes: ...

class X448PrivateKey:
    def exchange(self, peer_public_key) -> bytes: ...

class EcPrivateKey:
    def exchange(self, algorithm, peer_public_key) -> bytes: ...
    def public_key(self) -> Any: ...

class SigningKey:
    def sign(self, data: bytes, *params) -> bytes: ...
""",
)
for _k in ("X25519PrivateKey.exchange", "X448PrivateKey.exchange", "EcPrivateKey.exchange"):
    R.contract(_k, params={"peer_public_key": "Any", "algorithm": "Any"}, returns="bytes", raises={"Exception": None}, **_EXT)
R.contract("EcPrivateKey.public_key", returns="Any", **_EXT)
R.contract("SigningKey.sign", params={"data": "bytes", "params": "Any"}, returns="bytes", raises={"Exception": None}, **_EXT)
R.contract("ec.ECDH", returns="Any", **_EXT)
R.contract("X509Certificate.public_bytes", returns="bytes", raises={"Exception": None}, **_EXT)
R.contract("os.urandom", returns="bytes", ensures=["len(result) == a0"], trusted=True, note="stdlib")
R.contract("struct.unpack", returns="tuple[int]", raises={"Exception": None}, trusted=True, note="stdlib")
R.contract("decode_public_key", params={"key_share": "Optional[tuple[int,bytes]]"}, returns="Optional[Any]", raises={"Exception": None}, trusted=True,
           note="tls.py wrapper around cryptography public-key decoding: returns an opaque key object or None, may raise")
R.ufunc("key_sig_algs", ["Optional[SigningKey]"], "list[int]")
R.contract("Context._signature_algorithms_for_private_key", returns="list[int]", trusted=True, use_invariant=False,
           ensures=["same(result, key_sig_algs(self.certificate_private_key))"],
           note="tls.py: classifies the configured private key with isinstance on cryptography types; reads only, result an opaque but FIXED function of the key object (key_sig_algs)")
R.contract("Context._build_session_ticket", params={"other_extensions": "Optional[list[tuple[int,bytes]]]"}, returns="SessionTicket", raises={"Exception": None}, trusted=True, use_invariant=False,
           note="tls.py: derives the resumption secret (HKDF) and builds a SessionTicket record; reads only")
R.field_types("KeyScheduleProxy")
R.contract("KeyScheduleProxy.select", params={"cipher_suite": "int"}, returns="KeySchedule", raises={"Exception": None}, **_KS)
for _p in ("certificate", "certificate_verify", "finished", "new_session_ticket", "server_hello", "encrypted_extensions", "certificate_request"):
    R.contract(
        "push_" + _p,
        trusted=True,
        raises={"Exception": None},
        modifies=["buf.g_pos", "buf.g_mem"],
        ensures=["buf.g_pos >= old(buf.g_pos)", "buf.g_cap == old(buf.g_cap)"],
        note="tls.py message serializer: trusted stub (appends to the buffer, BufferWriteError when full)",
    )
# negotiate(): first supported value that was offered; otherwise the given alert (or None) - executed at call sites
# (inline contract with the loop invariant, and the standalone raises-iff / first-common contract: contracts/tls_auth.py, C03)

# A.2 WAIT_FLIGHT2 / after the client's authentication messages: compute the expected client Finished, optionally
# issue a session ticket, then wait for Finished.  No traffic key is touched here.
R.contract(
    "Context._server_expect_finished",
    use_invariant=False,
    frame=True,
    requires=["self.key_schedule is not None"],
    raises={"CallbackError": None, "Exception": None},
    modifies=["self._expected_verify_data", "self.g_fin_base", "self.g_fin_key", "self._new_session_ticket", "self.state", "onertt_buf.g_pos", "onertt_buf.g_mem", _HASH],
    ghost_at={"self._expected_verify_data = self.key_schedule.finished_verify_data(self._dec_key)": {"self.g_fin_base": "self.key_schedule.g_hash", "self.g_fin_key": "self._dec_key"}},
    ensures=[
        "self.state == State.SERVER_EXPECT_FINISHED",
        # (C03) RFC 8446 4.4.4: the client Finished covers the transcript up to, not including, itself; the key is the
        # client handshake traffic secret (_dec_key, untouched here)
        "same(self.g_fin_base, old(self.key_schedule.g_hash)) and self.g_fin_key == old(self._dec_key)",
        "same(self._expected_verify_data, fin_mac(self.g_fin_base, self.g_fin_key))",
        # the transcript only grows (by the anticipated client Finished)
        "hash_extends(self.key_schedule.g_hash, old(self.key_schedule.g_hash))",
    ],
    on_raise={"Exception": ["self.state == old(self.state)"], "CallbackError": ["self.state == old(self.state)"]},
    prop=["C11"],
)

# 4.6.1: NewSessionTicket after the handshake: no state change, no keys
R.contract(
    "Context._client_handle_new_session_ticket",
    frame=True,
    requires=["self.state == State.CLIENT_POST_HANDSHAKE"],
    raises=dict(_NOUM, CallbackError=None, Exception=None),
    modifies=["input_buf.g_pos"],
    ensures=["self.state == old(self.state)", "len(self.g_key_log) == len(old(self.g_key_log))", "keys_same(self)", "auth_same(self)"],
    on_raise={"Exception": _FAIL, "CallbackError": _FAIL},
    prop=["C11"],
)

# A.1 WAIT_SH -ServerHello-> WAIT_EE.  7.1: the handshake secrets exist once the ServerHello is processed; the
# server_handshake_traffic_secret is installed for reading (it protects, and is authenticated by, the rest of the
# flight).  PSK: 4.2.11 "the client MUST verify that the server's selected_identity is within the range supplied
# by the client" - one identity is offered, so identity 0 of an actually offered PSK.
_HELLO_KEEP = "self.g_cv_ok == old(self.g_cv_ok) and self.g_fin_ok == old(self.g_fin_ok) and self._peer_certificate == old(self._peer_certificate) and self._is_client == old(self._is_client)"
R.contract(
    "Context._client_handle_hello",
    frame=True,
    requires=["self.state == State.CLIENT_EXPECT_SERVER_HELLO"],
    raises=dict(_NOUM, CallbackError=None, Exception=None),
    modifies=["self.key_schedule", "self._session_resumed", "self._key_schedule_psk", "self._key_schedule_proxy", "self._dec_key", "self._enc_key", "self.g_key_log", "self.g_psk_sel", "self.state", "input_buf.g_pos"] + _KS_FIELDS,
    ghost_at={
        "cipher_suite = negotiate(self._cipher_suites, [peer_hello.cipher_suite], AlertHandshakeFailure('Unsupported cipher suite'))": {
            "self.g_psk_sel": "self.g_psk_sel or (self._key_schedule_psk is not None and peer_hello.pre_shared_key is not None and some(peer_hello.pre_shared_key) == 0)"
        }
    },
    loops={0: dict(invariant=[])},
    ensures=[
        "self.state == State.CLIENT_EXPECT_ENCRYPTED_EXTENSIONS",
        "same(self.g_key_log, old(self.g_key_log) + [(Direction.DECRYPT, Epoch.HANDSHAKE)])",
        "same(self._enc_key, old(self._enc_key))",
        "self.key_schedule is not None",
        "implies(self._session_resumed and not old(self._session_resumed), self.g_psk_sel)",
        _HELLO_KEEP,
    ],
    on_raise={
        "Exception": ["self.state == old(self.state)", "len(self.g_key_log) == len(old(self.g_key_log))", "keys_same(self)", _HELLO_KEEP],
        "CallbackError": ["self.state == old(self.state)", "same(self._enc_key, old(self._enc_key))", _HELLO_KEEP],
    },
    prop=["C11"],
)

# A.1 WAIT_FINISHED -Finished-> CONNECTED.  4.4.4: "Recipients of Finished messages MUST verify that the contents
# are correct and if incorrect MUST terminate the connection with a decrypt_error alert".  7.1: the application
# traffic secrets are released only now: read key, then (after the client's own Finished flight) write key.
R.contract(
    "Context._client_handle_finished",
    frame=True,
    requires=["self.state == State.CLIENT_EXPECT_FINISHED"],
    raises=dict(_NOUM, CallbackError=None, Exception=None),
    modifies=["self._dec_key", "self._enc_key", "self.g_key_log", "self.g_fin_ok", "self.state", "input_buf.g_pos", "output_buf.g_pos", "output_buf.g_mem"] + _KS_FIELDS,
    # (C03) g_fin_ok: the received verify_data EQUALS (same length, same bytes) the MAC over the transcript AS IT WAS ON
    # ENTRY - before this Finished message - under the server handshake traffic secret; it does not mention the local
    # variable the code compares with
    ghost_at={"self.key_schedule.update_hash(input_buf.data)": {"self.g_fin_ok": "finished.verify_data == fin_mac(old(self.key_schedule.g_hash), old(self._dec_key))"}},
    # (C03) and only then the message itself enters the transcript, whole (everything the parser consumed) and once
    cuts={"assert self.key_schedule.generation == 2": ["hash_fed(self.key_schedule.g_hash, old(self.key_schedule.g_hash), input_buf.g_mem, input_buf.g_pos)", "self.g_fin_ok"]},
    # a loop is not expected here; if one appears nothing is known after it
    loops={"default": dict(invariant=[])},
    ensures=[
        "self.state == State.CLIENT_POST_HANDSHAKE",
        "same(self.g_key_log, old(self.g_key_log) + [(Direction.DECRYPT, Epoch.ONE_RTT)] + [(Direction.ENCRYPT, Epoch.ONE_RTT)])",
        "self.g_fin_ok",
        _AUTH_BUT_FIN,
    ],
    on_raise={
        # nothing is released unless the Finished matched
        "Exception": ["self.state == old(self.state)", _AUTH_BUT_FIN, "len(self.g_key_log) == len(old(self.g_key_log)) or self.g_fin_ok", "same(self.g_key_log, old(self.g_key_log)) or self.g_fin_ok"],
        "CallbackError": ["self.state == old(self.state)", _AUTH_BUT_FIN, "self.g_fin_ok"],
    },
    prop=["C11"],
)

# A.2 START -ClientHello-> (flight sent) WAIT_CERT | WAIT_FINISHED.  7.1: both handshake secrets and the server's
# application write secret exist after the server's own Finished; 0-RTT read keys only for an accepted PSK.
R.contract(
    "Context._server_handle_hello",
    requires=["self.state == State.SERVER_EXPECT_CLIENT_HELLO"],
    raises=dict(_NOUM, CallbackError=None, Exception=None),
    modifies=["self.key_schedule", "self._session_resumed", "self._dec_key", "self._enc_key", "self._next_dec_key", "self.g_key_log", "self.state", "self.alpn_negotiated",
              "self.early_data_accepted", "self.received_extensions", "self._psk_key_exchange_mode", "self._expected_verify_data", "self.g_fin_base", "self.g_fin_key", "self._new_session_ticket",
              "self.client_random", "self.server_random", "self.legacy_session_id", "self._x25519_private_key", "self._x448_private_key", "self._ec_private_keys",
              "Buffer.g_pos[*]", "Buffer.g_mem[*]"] + _KS_FIELDS,
    ensures=[
        "self.state == State.SERVER_EXPECT_CERTIFICATE or self.state == State.SERVER_EXPECT_FINISHED",
        "self.key_schedule is not None",
        _HELLO_KEEP + " and self.g_psk_sel == old(self.g_psk_sel)",
    ],
    on_raise={
        "Exception": ["self.state == old(self.state)", _HELLO_KEEP + " and self.g_psk_sel == old(self.g_psk_sel)"],
        "CallbackError": ["self.state == old(self.state)", _HELLO_KEEP + " and self.g_psk_sel == old(self.g_psk_sel)"],
    },
    prop=["C11"],
)

# ------------------------------------------------------------------------------------------------ entry point
# handle_message: reassembly loop around the dispatcher.  Establishes the dispatcher's precondition (nothing is
# dispatched before the ClientHello was sent) and shows that whatever bytes arrive, the class invariant H survives.
R.module_names.add("int")  # only for the attribute form int.from_bytes (int(x) is a builtin of the engine)
if "int.from_bytes" not in R.contracts:  # contracts/quic_codecs.py (C17) gives the exact big-endian value
    R.contract("int.from_bytes", returns="int", ensures=["result >= 0"], trusted=True, note="stdlib int.from_bytes (big endian, unsigned)")
R.field_types("Context", _receive_buffer="bytes")
R.contract(
    "Context._client_send_hello",
    raises={"CallbackError": None, "Exception": None},
    modifies=["self.state", "self._key_schedule_psk", "self._key_schedule_proxy", "self._x25519_private_key", "self._x448_private_key", "self._ec_private_keys", "self.g_key_log",
              "output_buf.g_pos", "output_buf.g_mem"] + _KS_FIELDS,
    ensures=["self.state == State.CLIENT_EXPECT_SERVER_HELLO", "auth_same(self)", "same(self._enc_key, old(self._enc_key)) and same(self._dec_key, old(self._dec_key))"],
    on_raise={"Exception": ["self.state == old(self.state)", "auth_same(self)"], "CallbackError": ["self.state == old(self.state)", "auth_same(self)"]},
    note="NOT verified here (key generation, ClientHello serialisation): contract assumed at handle_message's call site",
)
R.contract(
    "Context.handle_message",
    params={"output_buf": "dict[Epoch,Buffer]"},
    raises={"Exception": None},
    modifies=[],
    loops={0: dict(invariant=["self.state != State.CLIENT_HANDSHAKE_START"] + H_MAIN + H_SERVER_AUTH + H_FIN, modifies=[
        "self.state", "self._enc_key", "self._dec_key", "self.g_key_log", "self.g_cv_ok", "self.g_psk_sel", "self._session_resumed",
        "self.key_schedule", "self._key_schedule_psk", "self._key_schedule_proxy", "self._peer_certificate", "self._peer_certificate_chain",
        "self._certificate_request", "self.alpn_negotiated", "self.early_data_accepted", "self.received_extensions",
        "self.g_fin_ok", "self.g_fin_base", "self.g_fin_key", "self._expected_verify_data", "self._new_session_ticket", "self._next_dec_key", "self._psk_key_exchange_mode",
        "self.client_random", "self.server_random", "self.legacy_session_id", "self._x25519_private_key", "self._x448_private_key", "self._ec_private_keys",
        "Buffer.g_pos[*]", "Buffer.g_mem[*]", "Buffer.g_cap[*]"] + _KS_FIELDS)},
    ensures=["self.state != State.CLIENT_HANDSHAKE_START"],
    prop=["C11"],
)

# construction: establishes H (client: CLIENT_HANDSHAKE_START, server: SERVER_EXPECT_CLIENT_HELLO; nothing verified,
# nothing resumed, no peer certificate, no key schedule)
R.module_names.add("default_backend")
R.extern_module(
    "cryptography_backend_model.py",
    """
class CryptoBackend:
    def ed25519_supported(self) -> bool: ...
    def ed448_supported(self) -> bool: ...
    def x25519_supported(self) -> bool: ...
    def x448_supported(self) -> bool: ...

def default_backend() -> CryptoBackend: ...
""",
)
for _m in ("ed25519_supported", "ed448_supported", "x25519_supported", "x448_supported"):
    R.contract("CryptoBackend." + _m, returns="bool", **_EXT)
R.contract("default_backend", returns="CryptoBackend", **_EXT)
R.field_types(
    "Context",
    _alpn_protocols="Optional[list[str]]",
    _psk_key_exchange_modes="list[int]",
    _supported_groups="list[int]",
)
R.contract(
    "Context.__init__",
    params={"alpn_protocols": "Optional[list[str]]", "cipher_suites": "Optional[list[int]]", "logger": "Optional[Callable]", "verify_mode": "Optional[int]"},
    ghost_exit={"self.g_cv_ok": "False", "self.g_psk_sel": "False", "self.g_fin_ok": "False"},
    ensures=[
        "self.state == (State.CLIENT_HANDSHAKE_START if is_client else State.SERVER_EXPECT_CLIENT_HELLO)",
        "not self._session_resumed and self._peer_certificate is None and self.key_schedule is None and self._enc_key is None and self._dec_key is None",
        "not self.g_cv_ok and not self.g_psk_sel and not self.g_fin_ok",
    ],
    prop=["C11"],
)

# ---- stubs used only by _server_handle_hello
R.contract("Context.get_session_ticket_cb", callback=True, trusted=True, returns="Optional[SessionTicket]", raises={"CallbackError": None}, note="session ticket lookup callback")
R.contract("KeySchedule.__init__", params={"cipher_suite": "int"}, modifies=["self.generation", "self.cipher_suite", "self.g_hash", "self.secret", "self.algorithm", "self.hash", "self.hash_empty_value"],
           raises={"Exception": None}, ensures=["self.generation == 0", "self.cipher_suite == cipher_suite"], **_KS)
R.contract("SessionTicket.is_valid", returns="bool", trusted=True, note="compares the ticket validity window with the wall clock (utcnow): opaque bool")
