# Contracts for src/aioquic/_buffer.c (checked by engine/cwp on the clang AST of the real file).
#
# Class invariant Inv(BufferObject): base is the start of a live heap allocation of (end - base) bytes and
# base <= pos <= end.  Every method is verified for EVERY argument PyArg_Parse* can deliver: it assumes Inv,
# must keep every access inside the allocation / the argument objects, must re-establish Inv on every exit
# (normal and error: "leaves the helper usable"), and must satisfy the functional clause below, which is the
# RFC 9000 §16 / big-endian specification of the codec (C17) — not a transcription of the C code.
import z3

from engine.cwp.chelp import B, FALSE, TRUE, be, buffer_inv, buffer_self, buffer_unchanged, kind_of, mv, res_bytes_equal
from engine.cwp.cexec import PV, bv

F = "_buffer.c::"


def _setup(m):
    return buffer_self(m)


def _post_common(m, st, out):
    """Inv on every exit + 'NULL result iff a Python exception is set'"""
    goals = list(buffer_inv(m, st, st["B"]))
    k = kind_of(out)
    goals.append(("null-iff-error", B((k == "null") == (m.err is not None)), "returns NULL exactly when a Python exception has been set"))
    return goals, k


def _err_clause(goals, m, k, exc, cond, what):
    """raises `exc` iff cond (both directions); MemoryError (allocation of the result object) is always allowed"""
    if k == "null":
        if m.err == "MemoryError" or m.err == "TypeError":
            return "other-error"
        goals.append(("raises.%s.if" % exc, z3.And(B(m.err == exc), cond), "error return => %s and (%s)" % (exc, what)))
        return "error"
    goals.append(("raises.%s.only-if" % exc, z3.Not(cond), "normal return => not (%s)" % what))
    return "ok"


# ---- pull_uint8/16/32/64: big-endian, position advances by n, BufferReadError iff fewer than n bytes remain
def pull_fixed(n):
    def post(m, st, out):
        goals, k = _post_common(m, st, out)
        cap, p0 = st["cap"], st["p0"]
        short = z3.UGT(bv(n), cap - p0)
        r = _err_clause(goals, m, k, "BufferReadError", short, "fewer than %d bytes remain" % n)
        if r == "error":
            goals += buffer_unchanged(m, st)
        elif r == "ok":
            goals.append(("value", B(k.kind == "int" and not k.signed) if hasattr(k, "kind") else FALSE, "result is an unsigned int"))
            if hasattr(k, "kind") and k.kind == "int":
                goals.append(("value.big-endian", k.value == z3.ZeroExt(64 - 8 * n, be(st["mem0"], p0, n)), "result == big-endian value of the next %d bytes" % n))
            goals.append(("pos.advance", st["so"].fields["pos"].off == p0 + n, "position advances by %d" % n))
            goals += buffer_unchanged(m, st, pos=False)
        return goals

    return post


for _n, _name in ((1, "pull_uint8"), (2, "pull_uint16"), (4, "pull_uint32"), (8, "pull_uint64")):
    R.c_contract(F + "Buffer_" + _name, setup=_setup, post=pull_fixed(_n), prop=["C04", "C17"])


# ---- pull_uint_var: RFC 9000 §16 — length 2^(first byte >> 6), value = remaining bits big-endian
def _post_pull_var(m, st, out):
    goals, k = _post_common(m, st, out)
    cap, p0, mem0 = st["cap"], st["p0"], st["mem0"]
    first = z3.Select(mem0, p0)
    prefix = z3.LShR(first, 6)
    ln = z3.If(prefix == 0, bv(1), z3.If(prefix == 1, bv(2), z3.If(prefix == 2, bv(4), bv(8))))
    short = z3.Or(cap == p0, z3.UGT(ln, cap - p0))
    r = _err_clause(goals, m, k, "BufferReadError", short, "buffer empty or shorter than the encoded length")
    if r == "error":
        goals += buffer_unchanged(m, st)
    elif r == "ok":
        if hasattr(k, "kind") and k.kind == "int":
            v1 = z3.ZeroExt(56, be(mem0, p0, 1))
            v2 = z3.ZeroExt(48, be(mem0, p0, 2))
            v4 = z3.ZeroExt(32, be(mem0, p0, 4))
            v8 = be(mem0, p0, 8)
            spec = z3.If(prefix == 0, v1 & 0x3F, z3.If(prefix == 1, v2 & 0x3FFF, z3.If(prefix == 2, v4 & 0x3FFFFFFF, v8 & 0x3FFFFFFFFFFFFFFF)))
            goals.append(("value.rfc9000", z3.And(B(not k.signed), k.value == spec), "result == RFC 9000 §16 decoding of the bytes at the position"))
        else:
            goals.append(("value", FALSE, "result is an int"))
        goals.append(("pos.advance", st["so"].fields["pos"].off == p0 + ln, "position advances by the encoded length"))
        goals += buffer_unchanged(m, st, pos=False)
    return goals


R.c_contract(F + "Buffer_pull_uint_var", setup=_setup, post=_post_pull_var, prop=["C04", "C17"])


def _parsed_int(m, i=0):
    p = m.ghost.get("parsed")
    return p[i][1] if p and p[i][0] == "int" else None


def _written(st, m, p0, nbytes, value_bits):
    """bytes [p0, p0+n) hold value_bits (8n-bit BV, big-endian); every other byte unchanged"""
    Bo = st["B"]
    k = z3.BitVec("k!w", 64)
    goals = [("bytes.written", be(Bo.mem, p0, nbytes) == value_bits, "the %d bytes at the old position are the big-endian encoding" % nbytes)]
    goals.append(("bytes.frame", z3.ForAll([k], z3.Implies(z3.And(z3.ULT(k, st["cap"]), z3.Or(z3.ULT(k, p0), z3.UGE(k, p0 + nbytes))), z3.Select(Bo.mem, k) == z3.Select(st["mem0"], k))), "no other byte of the buffer changes"))
    goals.append(("pos.advance", st["so"].fields["pos"].off == p0 + nbytes, "position advances by %d" % nbytes))
    return goals


# ---- push_uint8/16/32/64
def push_fixed(n):
    def post(m, st, out):
        goals, k = _post_common(m, st, out)
        if m.err == "TypeError":
            return goals + buffer_unchanged(m, st)
        cap, p0 = st["cap"], st["p0"]
        full = z3.UGT(bv(n), cap - p0)
        r = _err_clause(goals, m, k, "BufferWriteError", full, "fewer than %d bytes of capacity remain" % n)
        if r == "error":
            goals += buffer_unchanged(m, st)
        elif r == "ok":
            goals.append(("returns-none", B(k == "none"), "returns None"))
            goals += _written(st, m, p0, n, _parsed_int(m))
        return goals

    return post


for _n, _name in ((1, "push_uint8"), (2, "push_uint16"), (4, "push_uint32"), (8, "push_uint64")):
    R.c_contract(F + "Buffer_" + _name, setup=_setup, post=push_fixed(_n), prop=["C04", "C17"])


# ---- push_uint_var: minimal RFC 9000 §16 encoding; ValueError iff value > 2^62 - 1
def _post_push_var(m, st, out):
    goals, k = _post_common(m, st, out)
    if m.err == "TypeError":
        return goals + buffer_unchanged(m, st)
    v = _parsed_int(m)
    cap, p0 = st["cap"], st["p0"]
    ln = z3.If(z3.ULE(v, 0x3F), bv(1), z3.If(z3.ULE(v, 0x3FFF), bv(2), z3.If(z3.ULE(v, 0x3FFFFFFF), bv(4), bv(8))))
    toobig = z3.UGT(v, bv(0x3FFFFFFFFFFFFFFF))
    full = z3.And(z3.Not(toobig), z3.UGT(ln, cap - p0))
    if k == "null":
        goals.append(("raises.if", z3.Or(z3.And(B(m.err == "ValueError"), toobig), z3.And(B(m.err == "BufferWriteError"), full)), "error => (ValueError and value > 2^62-1) or (BufferWriteError and no room for the minimal encoding)"))
        goals += buffer_unchanged(m, st)
    else:
        goals.append(("raises.only-if", z3.Not(z3.Or(toobig, full)), "normal return => value <= 2^62-1 and the minimal encoding fits"))
        goals.append(("returns-none", B(k == "none"), "returns None"))
        new = st["so"].fields["pos"].off
        for n, pfx in ((1, 0), (2, 1), (4, 2), (8, 3)):
            enc = z3.Extract(8 * n - 1, 0, v) | z3.BitVecVal(pfx << (8 * n - 2), 8 * n)
            sub = _written(st, m, p0, n, enc)
            for nm, g, note in sub:
                goals.append(("%s.len%d" % (nm, n), z3.Implies(ln == n, g), "encoded length %d: %s" % (n, note)))
    return goals


R.c_contract(F + "Buffer_push_uint_var", setup=_setup, post=_post_push_var, prop=["C04", "C17"])


# ---- push_bytes
def _post_push_bytes(m, st, out):
    goals, k = _post_common(m, st, out)
    if m.err == "TypeError":
        return goals + buffer_unchanged(m, st)
    _, dobj, dlen = m.ghost["parsed"][0]
    cap, p0 = st["cap"], st["p0"]
    full = z3.UGT(dlen, cap - p0)
    r = _err_clause(goals, m, k, "BufferWriteError", full, "data longer than the remaining capacity")
    if r == "error":
        goals += buffer_unchanged(m, st)
    elif r == "ok":
        Bo = st["B"]
        j = z3.BitVec("k!pb", 64)
        goals.append(("bytes.written", z3.ForAll([j], z3.Implies(z3.ULT(j, dlen), z3.Select(Bo.mem, p0 + j) == z3.Select(dobj.mem, j))), "the data bytes are stored at the old position"))
        goals.append(("bytes.frame", z3.ForAll([j], z3.Implies(z3.And(z3.ULT(j, cap), z3.Or(z3.ULT(j, p0), z3.UGE(j, p0 + dlen))), z3.Select(Bo.mem, j) == z3.Select(st["mem0"], j))), "no other byte changes"))
        goals.append(("pos.advance", st["so"].fields["pos"].off == p0 + dlen, "position advances by len(data)"))
    return goals


R.c_contract(F + "Buffer_push_bytes", setup=_setup, post=_post_push_bytes, prop=["C04", "C17"])


# ---- pull_bytes
def _post_pull_bytes(m, st, out):
    goals, k = _post_common(m, st, out)
    if m.err == "TypeError":
        return goals + buffer_unchanged(m, st)
    n = _parsed_int(m)
    cap, p0 = st["cap"], st["p0"]
    bad = z3.Or(n < 0, z3.UGT(n, cap - p0))
    r = _err_clause(goals, m, k, "BufferReadError", bad, "negative length or more than the remaining bytes")
    if r == "error":
        goals += buffer_unchanged(m, st)
    elif r == "ok":
        goals.append(("value", z3.And(B(getattr(k, "kind", None) == "bytes"), res_bytes_equal(k, st["mem0"], p0, n)) if hasattr(k, "kind") else FALSE, "result == the next n bytes"))
        goals.append(("pos.advance", st["so"].fields["pos"].off == p0 + n, "position advances by n"))
        goals += buffer_unchanged(m, st, pos=False)
    return goals


R.c_contract(F + "Buffer_pull_bytes", setup=_setup, post=_post_pull_bytes, prop=["C04", "C17"])


# ---- data_slice(start, stop)
def _post_data_slice(m, st, out):
    goals, k = _post_common(m, st, out)
    goals += buffer_unchanged(m, st)
    if m.err == "TypeError":
        return goals
    a, b = _parsed_int(m, 0), _parsed_int(m, 1)
    cap = st["cap"]
    bad = z3.Or(a < 0, z3.UGT(a, cap), b < 0, z3.UGT(b, cap), b < a)
    r = _err_clause(goals, m, k, "BufferReadError", bad, "start/stop outside [0, capacity] or stop < start")
    if r == "ok":
        goals.append(("value", z3.And(B(getattr(k, "kind", None) == "bytes"), res_bytes_equal(k, st["mem0"], a, b - a)) if hasattr(k, "kind") else FALSE, "result == bytes [start, stop)"))
    return goals


R.c_contract(F + "Buffer_data_slice", setup=_setup, post=_post_data_slice, prop=["C04", "C17"])


# ---- seek(pos)
def _post_seek(m, st, out):
    goals, k = _post_common(m, st, out)
    goals += buffer_unchanged(m, st, pos=False)
    if m.err == "TypeError":
        return goals + buffer_unchanged(m, st, mem=False)
    p = _parsed_int(m)
    bad = z3.Or(p < 0, z3.UGT(p, st["cap"]))
    r = _err_clause(goals, m, k, "BufferReadError", bad, "position outside [0, capacity]")
    if r == "error":
        goals += buffer_unchanged(m, st, mem=False)
    elif r == "ok":
        goals.append(("pos.set", st["so"].fields["pos"].off == p, "position == argument"))
    return goals


R.c_contract(F + "Buffer_seek", setup=_setup, post=_post_seek, prop=["C04", "C17"])


# ---- tell / eof / capacity / data
def _post_tell(m, st, out):
    goals, k = _post_common(m, st, out)
    goals += buffer_unchanged(m, st)
    if k != "null":
        goals.append(("value", z3.And(B(getattr(k, "kind", None) == "int"), k.value == st["p0"]) if hasattr(k, "kind") else FALSE, "result == position"))
    return goals


def _post_eof(m, st, out):
    goals, k = _post_common(m, st, out)
    goals += buffer_unchanged(m, st)
    goals.append(("value", z3.And(B(k in ("true", "false")), B(k == "true") == (st["p0"] == st["cap"])), "result is True iff position == capacity"))
    return goals


def _post_capacity(m, st, out):
    goals, k = _post_common(m, st, out)
    goals += buffer_unchanged(m, st)
    if k != "null":
        goals.append(("value", z3.And(B(getattr(k, "kind", None) == "int"), k.value == st["cap"]) if hasattr(k, "kind") else FALSE, "result == capacity"))
    return goals


def _post_data(m, st, out):
    goals, k = _post_common(m, st, out)
    goals += buffer_unchanged(m, st)
    if k != "null":
        goals.append(("value", z3.And(B(getattr(k, "kind", None) == "bytes"), res_bytes_equal(k, st["mem0"], bv(0), st["p0"])) if hasattr(k, "kind") else FALSE, "result == bytes [0, position)"))
    return goals


R.c_contract(F + "Buffer_tell", setup=_setup, post=_post_tell, prop=["C04", "C17"])
R.c_contract(F + "Buffer_eof", setup=_setup, post=_post_eof, prop=["C04", "C17"])
R.c_contract(F + "Buffer_capacity_getter", setup=_setup, post=_post_capacity, prop=["C04", "C17"])
R.c_contract(F + "Buffer_data_getter", setup=_setup, post=_post_data, prop=["C04", "C17"])


# ---- __init__(capacity=0, data=None): must ESTABLISH Inv on success, for every capacity / data the parser delivers
def _setup_init(m):
    return buffer_self(m, initialised=False)


def _post_init(m, st, out):
    goals = []
    rv = z3.simplify(out.t)
    ok = z3.is_bv_value(rv) and rv.as_long() == 0
    goals.append(("status-iff-error", B(ok == (m.err is None)), "returns 0 exactly when no Python exception is set"))
    if ok:
        goals += buffer_inv(m, st)
        so = st["so"]
        if isinstance(so.fields.get("pos"), PV):
            goals.append(("pos.zero", so.fields["pos"].off == 0, "position starts at 0"))
        parsed = m.ghost.get("parsed") or []
        if len(parsed) == 2 and parsed[1][0] == "bytes" and isinstance(so.fields.get("base"), PV) and so.fields["base"].obj is not None:
            _, dobj, dlen = parsed[1]
            Bo = so.fields["base"].obj
            j = z3.BitVec("k!in", 64)
            goals.append(("data.copied", z3.And(so.fields["end"].off == dlen, z3.ForAll([j], z3.Implies(z3.ULT(j, dlen), z3.Select(Bo.mem, j) == z3.Select(dobj.mem, j)))), "capacity == len(data) and the bytes are copied"))
        elif len(parsed) == 2 and parsed[0][0] == "int" and isinstance(so.fields.get("base"), PV) and so.fields["base"].obj is not None:
            goals.append(("capacity", so.fields["end"].off == parsed[0][1], "capacity == argument"))
    return goals


R.c_contract(F + "Buffer_init", setup=_setup_init, post=_post_init, prop=["C04"])


# ---- dealloc: frees the allocation exactly once (also for an object whose __init__ failed: all-NULL fields)
def _setup_dealloc(m):
    if m.ctx.branch(m.ctx.fresh_const(z3.BoolSort(), "was_initialised")):
        return buffer_self(m)
    st = buffer_self(m, initialised=False)
    for f in ("base", "end", "pos"):
        st["so"].fields[f] = PV(None, bv(0))
    return st


def _post_dealloc(m, st, out):
    goals = []
    if "B" in st:
        goals.append(("freed", B(not st["B"].live), "the allocation is released"))
    return goals or [("trivial", TRUE, "nothing to release")]


R.c_contract(F + "Buffer_dealloc", setup=_setup_dealloc, post=_post_dealloc, prop=["C04"])


# ---- lemmas over the two specification functions used above (pure bit-vector facts, no code involved)
def _lemma_varint_roundtrip():
    from engine.pyvc.core import Obligation

    v = z3.BitVec("v", 64)
    out = []
    for n, pfx, lo, hi in ((1, 0, 0, 0x3F), (2, 1, 0x40, 0x3FFF), (4, 2, 0x4000, 0x3FFFFFFF), (8, 3, 0x40000000, 0x3FFFFFFFFFFFFFFF)):
        inrange = z3.And(z3.UGE(v, bv(lo)), z3.ULE(v, bv(hi)))
        enc = z3.Extract(8 * n - 1, 0, v) | z3.BitVecVal(pfx << (8 * n - 2), 8 * n)  # what push_uint_var is proved to write
        first = z3.Extract(8 * n - 1, 8 * n - 8, enc)
        prefix = z3.LShR(first, 6)
        dec_len = z3.If(prefix == 0, 1, z3.If(prefix == 1, 2, z3.If(prefix == 2, 4, 8)))
        dec_val = z3.ZeroExt(64 - 8 * n, enc) & bv((1 << (8 * n - 2)) - 1)  # what pull_uint_var is proved to return
        out.append(Obligation("varint_roundtrip:len%d.length" % n, "lemma", [inrange], dec_len == n, note="the decoder reads back the length the encoder chose (%d bytes)" % n))
        out.append(Obligation("varint_roundtrip:len%d.value" % n, "lemma", [inrange], dec_val == v, note="dec(enc(v)) == v for %d-byte encodings" % n))
        if n > 1:
            out.append(Obligation("varint_roundtrip:len%d.minimal" % n, "lemma", [inrange], z3.UGT(v, bv(lo - 1)), note="the %d-byte form is used only for values that do not fit the shorter form" % n))
    return out


def _lemma_fixed_roundtrip():
    from engine.pyvc.core import Obligation

    out = []
    for n in (1, 2, 4, 8):
        v = z3.BitVec("v%d" % n, 8 * n)
        bs = [z3.Extract(8 * (n - 1 - i) + 7, 8 * (n - 1 - i), v) for i in range(n)]  # bytes written by push_uintN (big-endian)
        back = bs[0]
        for b_ in bs[1:]:
            back = z3.Concat(back, b_)
        out.append(Obligation("fixed_roundtrip:uint%d" % (8 * n), "lemma", [], back == v, note="big-endian decode(encode(v)) == v for %d-bit integers" % (8 * n)))
    return out


R.lemma("varint_roundtrip", build=_lemma_varint_roundtrip, prop=["C17"])
R.lemma("fixed_roundtrip", build=_lemma_fixed_roundtrip, prop=["C17"])
