# Sidecar contracts for src/aioquic/quic/packet.py  (R is injected by the loader)

# RFC 9000 Appendix A.3: the result is congruent to the truncated number and is the candidate
# closest to `expected` (window (e - h, e + h]), except where that candidate would be
# negative or not below 2^62.
R.contract(
    "decode_packet_number",
    specialize={"num_bits": [8, 16, 24, 32]},
    requires=[
        "num_bits == 8 or num_bits == 16 or num_bits == 24 or num_bits == 32",
        "0 <= truncated < 2 ** num_bits",
        "0 <= expected < 2 ** 62",
    ],
    ensures=[
        "result % (2 ** num_bits) == truncated",
        "result >= 0",
        # closest candidate, unless clamped
        "result <= expected + 2 ** (num_bits - 1) or result < 2 ** num_bits",
        "result > expected - 2 ** (num_bits - 1) or result + 2 ** num_bits >= 2 ** 62",
    ],
    prop=["C02"],
)
