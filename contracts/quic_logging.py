"""C20 - logging is observationally transparent.  (sidecar; R is injected)

The bulk of C20 is NOT in this file: the obligations of the logger-guarded blocks are enumerated from the current source
on every run by engine/logblocks.py (quals "logblocks::<file>"; back end "syntactic frame analysis").  This file holds
the pyvc contracts of the qlog encoders: "never raises for the argument types the call sites pass, writes nothing
(log_event: only self._events)".  The encoders are stubbed as `trusted` in the other sidecars (they are C20
territory); the contracts here are registered as VARIANTS ("Cls.fn#c20") and verified against the real bodies, which
is what justifies those stubs.
"""

R.field_types("QuicLoggerTrace", _odcid="bytes", _events="list[Any]", _vantage_point="Any")
R.field_types("QuicStreamFrame", data="bytes", fin="bool", offset="int")

_NO_RAISE = dict(raises={}, modifies=[], frame=True, use_invariant=False, prop=["C20"])


# ---------------------------------------------------------------------------------------------------- encoders (pyvc)
# Clauses (from the property statement): logging never raises -> raises={} (every implicit failure - None dereference,
# KeyError, IndexError, UnicodeDecodeError, TypeError on Optional arithmetic - is an escape obligation); enabling the
# logger changes nothing else -> modifies=[] with frame=True (no field of any pre-existing object is written); the qlog
# document is serialisable as JSON -> is_json(result): str / int / float / bool / None / list / dict-with-str-keys of
# those, NO bytes (spec builtin added for C20, engine/pyvc/calls.py json_term).
R.field_types("QuicLogger", _traces="list[QuicLoggerTrace]")
R.type_aliases.setdefault("Headers", "list[tuple[bytes,bytes]]")
R.module_names.add("time")
R.contract("time.time", trusted=True, returns="float", note="stdlib clock: total, no effect on program state")
R.contract("hexdump", inline=True)
R.contract("binascii.hexlify", trusted=True, params={"a0": "bytes"}, returns="bytes", ensures=["len(result) == 2 * len(a0)", "forall(lambda k: implies(0 <= k and k < len(result), elem(result, k) < 128))"],
           note="stdlib: hex digits (ASCII) of the argument, total on bytes")

C20_ENCODERS = (
    "encode_connection_limit_frame encode_crypto_frame encode_data_blocked_frame encode_datagram_frame "
    "encode_max_stream_data_frame encode_new_connection_id_frame encode_new_token_frame encode_reset_stream_frame "
    "encode_retire_connection_id_frame encode_stream_data_blocked_frame encode_stop_sending_frame encode_stream_frame "
    "encode_streams_blocked_frame encode_http3_data_frame encode_path_challenge_frame encode_path_response_frame"
).split()
for _m in C20_ENCODERS:
    R.contract("QuicLoggerTrace.%s#c20" % _m, returns="Any", ensures=["is_json(result)"], **_NO_RAISE)

# QuicPacketType is a closed (non-int) Enum: a value of that declared type IS one of its members.  pyvc models Enum values by
# their integers without a range, so membership is stated as the precondition "for the argument types the call sites
# pass"; that PACKET_TYPE_NAMES has a key for EVERY member of the class as it is today is re-checked from the source by
# logblocks::quic/logger.py (QuicLoggerTrace.packet_type:total).
R.contract("QuicLoggerTrace.packet_type#c20", returns="str", requires=["packet_type >= 0", "packet_type <= 5"], ensures=["is_json(result)", "len(result) >= 4"], **_NO_RAISE)

# the one sink: appends exactly one record to the trace's own deque and touches nothing else
R.contract(
    "QuicLoggerTrace.log_event#c20",
    params={"data": "Any"},
    raises={},
    modifies=["self._events"],
    frame=True,
    use_invariant=False,
    ensures=["len(self._events) == old(len(self._events)) + 1", "forall(lambda k: implies(0 <= k and k < old(len(self._events)), sel(self._events, k) == old(sel(self._events, k))))",
             "implies(is_json(data), is_json(sel(self._events, old(len(self._events)))))"],
    prop=["C20"],
)

# HTTP/3 header lists.  EXPECTED TO BE REFUTED on the unchanged tree (known finding, tools/repro/c20_h3_headers_non_utf8.py):
# header names / values are arbitrary octets and .decode("utf8") uses the strict handler.  Kept apart from the contracts
# above so that the rest verifies; NOT weakened.
R.contract("QuicLoggerTrace._encode_http3_headers#c20", params={"headers": "list[tuple[bytes,bytes]]"}, returns="list[dict[str,str]]", ensures=["is_json(result)", "len(result) == len(headers)"], **_NO_RAISE)
