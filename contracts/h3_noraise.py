# Sidecar contracts for property C16  (R is injected by the loader; loaded after h3_headers.py, before quic_*.py)
#
# C16: "For every byte sequence a peer can place on any stream (request, push, control, QPACK encoder or decoder,
# WebTransport, unknown type) or in a datagram, in any order and chunking, feeding the resulting transport events to the
# HTTP/3 or HTTP/0.9 layer returns normally: it yields events or closes the connection with an HTTP/3 error code.  After
# such a close the transport can still emit its closing packet, whatever text the error message contains."
#
# Shape: exception-effect contracts.  Every function below H3Connection.handle_event declares `raises` within
# {ProtocolError and subclasses} (+ pylsqpack.StreamBlocked where the caller catches it); handle_event itself declares
# nothing.  Every implicit failure site (BufferReadError of a truncated varint, AssertionError, KeyError on
# self._stream[...], IndexError, ValueError of pylsqpack / int() / split-unpack, UnicodeDecodeError in the qlog helper,
# QuicPacketBuilderStop / BufferWriteError of the close frame) is therefore a `no-escape` obligation: proved unreachable,
# or refuted (=> finding).  MemoryError (allocation of the C Buffer) is declared everywhere: resource exhaustion is not
# peer-controlled content and is outside the property.
#
# Layout: (1) pylsqpack model (trusted stubs, DESIGN Appendix A) (2) the transport calls the HTTP layer makes
# (send_stream_data: verified) (3) state predicates (4) H3 leaf parsers (5) QPACK wiring (6) frame loops (7) dispatch
# (8) HTTP/0.9 (9) closing packet (10) qlog helper (11) findings kept as separate variants.

UV = 4611686018427387903  # 2^62 - 1, the largest varint

# ---------------------------------------------------------------------------------------------------------------- (1)
# pylsqpack 0.3.x (C, third party).  Behaviour observed natively on this image (see tools/repro/c16_pylsqpack_model.py):
#   Decoder keeps a list of PENDING header blocks (one per stream id), each with a `blocked` flag.
#   feed_header(sid, data):   ValueError iff a block for sid is pending; StreamBlocked -> the block becomes pending+blocked;
#                             DecompressionFailed / normal return -> nothing is left pending for sid.
#   resume_header(sid):       ValueError iff no block is pending for sid; StreamBlocked iff it is still flagged blocked;
#                             DecompressionFailed / normal return -> the block is removed.
#   feed_encoder(data):       EncoderStreamError, or the ids of ALL pending blocks whose flag is clear (the flag is only
#                             ever cleared here); nothing is added or removed.
# ASSUMPTION Q1 (pylsqpack internals, not verifiable here): a block whose flag was cleared does not block again in
# resume_header (ls-qpack blocks a header block only on its Required Insert Count, before any field line is decoded).
R.extern_module(
    "pylsqpack_model.py",
    """
class QpackDecoder:
    def feed_encoder(self, data: bytes) -> list[int]: ...
    def feed_header(self, stream_id: int, data: bytes) -> tuple[bytes, list[tuple[bytes, bytes]]]: ...
    def resume_header(self, stream_id: int) -> tuple[bytes, list[tuple[bytes, bytes]]]: ...

class QpackEncoder:
    def apply_settings(self, max_table_capacity: int, blocked_streams: int) -> bytes: ...
    def feed_decoder(self, data: bytes) -> None: ...
""",
)
R.field_types("QpackDecoder", g_pending="set[int]", g_blocked="set[int]")
_Q = dict(trusted=True, note="pylsqpack (third-party C extension): trusted stub, DESIGN Appendix A + model of the pending-block list")
R.contract(
    "QpackDecoder.feed_header",
    params={"data": "bytes"},
    returns="tuple[bytes, list[tuple[bytes,bytes]]]",
    raises={"ValueError": "stream_id in self.g_pending", "StreamBlocked": None, "DecompressionFailed": None},
    modifies=["self.g_pending", "self.g_blocked"],
    ensures=["same(self.g_pending, old(self.g_pending)) and same(self.g_blocked, old(self.g_blocked))"],
    on_raise={
        "StreamBlocked": [
            "forall(lambda x: (x in self.g_pending) == (x in old(self.g_pending) or x == stream_id))",
            "forall(lambda x: (x in self.g_blocked) == (x in old(self.g_blocked) or x == stream_id))",
        ],
        "DecompressionFailed": ["same(self.g_pending, old(self.g_pending)) and same(self.g_blocked, old(self.g_blocked))"],
        "ValueError": ["same(self.g_pending, old(self.g_pending)) and same(self.g_blocked, old(self.g_blocked))"],
    },
    **_Q,
)
_RESUMED = ["forall(lambda x: (x in self.g_pending) == (x in old(self.g_pending) and x != stream_id))", "same(self.g_blocked, old(self.g_blocked))"]
R.contract(
    "QpackDecoder.resume_header",
    returns="tuple[bytes, list[tuple[bytes,bytes]]]",
    raises={"ValueError": "stream_id not in self.g_pending", "StreamBlocked": "stream_id in self.g_pending and stream_id in self.g_blocked", "DecompressionFailed": None},
    modifies=["self.g_pending", "self.g_blocked"],
    ensures=_RESUMED,
    on_raise={
        "DecompressionFailed": _RESUMED,
        "StreamBlocked": ["same(self.g_pending, old(self.g_pending)) and same(self.g_blocked, old(self.g_blocked))"],
        "ValueError": ["same(self.g_pending, old(self.g_pending)) and same(self.g_blocked, old(self.g_blocked))"],
    },
    **_Q,
)
_FE = ["same(self.g_pending, old(self.g_pending))", "forall(lambda x: implies(x in self.g_blocked, x in old(self.g_blocked)))"]
R.contract(
    "QpackDecoder.feed_encoder",
    params={"data": "bytes"},
    returns="list[int]",
    raises={"EncoderStreamError": None},
    modifies=["self.g_blocked"],
    ensures=_FE + ["forall(lambda i: implies(0 <= i < len(result), sel(result, i) in self.g_pending and sel(result, i) not in self.g_blocked))"],
    on_raise={"EncoderStreamError": _FE},
    **_Q,
)
R.contract("QpackEncoder.feed_decoder", params={"data": "bytes"}, raises={"DecoderStreamError": None}, **_Q)
# apply_settings: total for arguments in the varint range (natively: 0, 2^32-1, 2^32, 2^62-1 - silently truncated to 32 bits)
R.contract("QpackEncoder.apply_settings", returns="bytes", requires=["0 <= max_table_capacity <= %d" % UV, "0 <= blocked_streams <= %d" % UV], **_Q)

R.field_types(
    "H3Connection",
    _decoder="QpackDecoder", _encoder="QpackEncoder", _stream="dict[int,H3Stream]", _is_done="bool", _settings_received="bool",
    _quic="QuicConnection", _quic_logger="Optional[QuicLoggerTrace]",
    _max_push_id="Optional[int]", _received_settings="Optional[dict[int,int]]",
    _peer_control_stream_id="Optional[int]", _peer_decoder_stream_id="Optional[int]", _peer_encoder_stream_id="Optional[int]",
    _local_control_stream_id="Optional[int]", _local_decoder_stream_id="Optional[int]", _local_encoder_stream_id="Optional[int]",
    _decoder_bytes_received="int", _decoder_bytes_sent="int", _encoder_bytes_received="int", _encoder_bytes_sent="int",
    _enable_webtransport="bool",
)
R.field_types(
    "H3Stream",
    blocked="bool", blocked_frame_size="Optional[int]", buffer="bytes", receiving_ended="bool", sending_ended="bool",
    frame_size="Optional[int]", frame_type="Optional[int]", push_id="Optional[int]", session_id="Optional[int]", stream_id="int",
    stream_type="Optional[int]", expected_content_length="Optional[int]", content_length="int",
)
R.field_types("QuicConnection", _remote_max_datagram_frame_size="Optional[int]")
R.field_types("DatagramFrameReceived", data="bytes")

# ---------------------------------------------------------------------------------------------------------------- (2)
# What the HTTP layer asks of the transport while it handles peer data: send_stream_data on its own QPACK streams.
# VERIFIED here (not assumed): ValueError exactly for a stream this end cannot send on / an unknown peer-initiated stream,
# AssertionError exactly when the send half was finished or reset; otherwise only that stream's send half is written.
R.spec(
    """
def q_sendable(q, sid):
    return (client_initiated(sid) == q._is_client or not uni(sid)) and (sid in q._streams or client_initiated(sid) == q._is_client)

def q_open(q, sid):
    "a write on the stream does not trip the sender's assertions: it is discarded (the PEER stopped the stream: STOP_SENDING) or the send half was neither finished nor reset"
    return implies(sid in q._streams, q._streams[sid].sender.stopped_by_peer or (q._streams[sid].sender._buffer_fin is None and q._streams[sid].sender._reset_error_code is None))

def q_can_write(q, sid):
    "send_stream_data(sid, data, end_stream=False) returns normally, now and after any further such write on any stream"
    return q_sendable(q, sid) and q_open(q, sid)

def h3_writable(c):
    "the local QPACK streams exist (created by H3Connection.__init__) and their send halves were neither finished nor reset"
    return c._local_decoder_stream_id is not None and c._local_encoder_stream_id is not None and q_can_write(c._quic, some(c._local_decoder_stream_id)) and q_can_write(c._quic, some(c._local_encoder_stream_id))
"""
)
_GS_MOD = [
    "self._streams", "self._streams_queue", "self._local_next_stream_id_uni", "self._local_next_stream_id_bidi", "self._streams_blocked_pending",
    "self._streams_blocked_uni", "self._streams_blocked_bidi", "QuicStream.is_blocked[*]",
]
_SSD_MOD = _GS_MOD + [
    "QuicStreamSender._pending_eof[*]", "QuicStreamSender.buffer_is_empty[*]", "QuicStreamSender._buffer[*]", "QuicStreamSender._buffer_stop[*]",
    "QuicStreamSender._buffer_fin[*]", "QuicStreamSender.gW[*]", "RangeSet._RangeSet__ranges[*]", "RangeSet.gview[*]", "RangeSet.gidx[*]",
]
R.contract(
    "QuicConnection._get_or_create_stream_for_send",
    returns="QuicStream",
    raises={"ValueError": "not q_sendable(self, stream_id)"},
    modifies=_GS_MOD,
    check_frame=True,
    ensures=[
        "stream_id in self._streams and result == self._streams[stream_id]",
        "forall(lambda k: (k in self._streams) == (k in old(self._streams) or k == stream_id))",
        "forall(lambda k: implies(k in old(self._streams), self._streams[k] == old(self._streams)[k]))",
        "implies(stream_id not in old(self._streams), result.sender._buffer_fin is None and result.sender._reset_error_code is None)",
        "self._is_client == old(self._is_client)",
        # C06: a stream this end opens starts with the send limit the peer advertised for streams it did NOT initiate
        "implies(stream_id not in old(self._streams), result.max_stream_data_remote == (self._remote_max_stream_data_uni if uni(stream_id) else self._remote_max_stream_data_bidi_remote))",
    ],
    prop=["C16", "C06"],
)
R.contract(
    "QuicConnection.send_stream_data",
    params={"data": "bytes"},
    raises={
        "ValueError": "not q_sendable(self, stream_id)",
        "AssertionError": "q_sendable(self, stream_id) and not q_open(self, stream_id)",
    },
    modifies=_SSD_MOD,
    ensures=[
        # streams are only added; every send half other than the written one keeps its FIN / reset state, the written one
        # is still open unless this call finished it
        "forall(lambda k: (k in self._streams) == (k in old(self._streams) or k == stream_id))",
        "forall(lambda k: implies(k in old(self._streams), self._streams[k] == old(self._streams)[k]))",
        "implies(not end_stream, forall(lambda k: implies(k in old(self._streams) and old(q_open(self, k)), q_open(self, k))))",
        "implies(not end_stream, q_open(self, stream_id))",
        "self._is_client == old(self._is_client)",
    ],
    prop=["C16"],
)

# the same frame, seen from the H3Connection (self._quic is the transport)
_Q_MOD = [m.replace("self.", "self._quic.") for m in _SSD_MOD]

# ---------------------------------------------------------------------------------------------------------------- (4)
# Leaf parsers of the control stream and of datagrams: whatever the payload bytes, the only exceptions are HTTP/3 protocol
# errors.  (RFC 9114 7.1: a payload that ends early or has trailing bytes is a frame error, i.e. a ProtocolError.)
R.spec(
    """
def h3_reserved_setting(k):
    return k == 0 or k == 2 or k == 3 or k == 4 or k == 5

def h3_one_varint(b):
    "the byte string is exactly one variable-length integer"
    return len(b) >= 1 and len(b) == varint_len(at(b, 0))

def h3_settings_ok(d):
    return forall(lambda k: implies(k in d, not h3_reserved_setting(k) and 0 <= k <= 4611686018427387903 and 0 <= d[k] <= 4611686018427387903))
"""
)
_PE = {"ProtocolError": None, "MemoryError": None}
R.contract(
    "parse_max_push_id",
    params={"data": "bytes"},
    returns="int",
    raises=_PE,
    ensures=["h3_one_varint(data)", "result == varint_val(data, 0) and 0 <= result <= %d" % UV],
    prop=["C16"],
)
R.contract(
    "parse_settings",
    params={"data": "bytes"},
    returns="dict[int,int]",
    raises=_PE,
    ensures=["h3_settings_ok(result)"],
    loops={0: dict(invariant=["0 <= buf.g_pos <= buf.g_cap and len(buf.g_mem) == buf.g_cap", "h3_settings_ok(settings)"], modifies=["buf.g_pos"])},
    prop=["C16"],
)
R.contract(
    "H3Connection._validate_settings",
    params={"settings": "dict[int,int]"},
    raises={"SettingsError": None},
    modifies=[],
    check_frame=True,
    loops={0: dict(invariant=[
        "0 <= _i0 <= 3",
        "implies(_i0 >= 1 and 0x8 in settings, settings[0x8] == 0 or settings[0x8] == 1)",
        "implies(_i0 >= 2 and 0x2B603742 in settings, settings[0x2B603742] == 0 or settings[0x2B603742] == 1)",
        "implies(_i0 >= 3 and 0x33 in settings, settings[0x33] == 0 or settings[0x33] == 1)",
    ])},
    ensures=[
        # what a returning call has checked (RFC 9220 / RFC 9297 / WebTransport draft): boolean settings are 0 or 1,
        # H3_DATAGRAM needs the transport parameter, WebTransport needs H3_DATAGRAM
        "implies(0x8 in settings, settings[0x8] == 0 or settings[0x8] == 1)",
        "implies(0x33 in settings, settings[0x33] == 0 or settings[0x33] == 1)",
        "implies(0x2B603742 in settings, settings[0x2B603742] == 0 or settings[0x2B603742] == 1)",
        "implies(0x33 in settings and settings[0x33] == 1, self._quic._remote_max_datagram_frame_size is not None)",
        "implies(0x2B603742 in settings and settings[0x2B603742] == 1, 0x33 in settings and settings[0x33] == 1)",
    ],
    prop=["C16"],
)
R.contract(
    "H3Connection._receive_datagram",
    params={"data": "bytes"},
    returns="list[H3Event]",
    # DatagramError exactly when the payload does not start with a complete quarter stream id
    raises={"DatagramError": "len(data) == 0 or varint_len(at(data, 0)) > len(data)", "MemoryError": None},
    modifies=[],
    check_frame=True,
    ensures=[
        "len(result) == 1 and is_instance(at(result, 0), 'DatagramReceived')",
        "cast(at(result, 0), 'DatagramReceived').stream_id == 4 * varint_val(data, 0)",
        "len(cast(at(result, 0), 'DatagramReceived').data) == len(data) - varint_len(at(data, 0))",
    ],
    prop=["C16"],
)
R.contract(
    "H3Connection._handle_control_frame",
    params={"frame_data": "bytes"},
    requires=["h3_writable(self)"],
    raises=_PE,
    modifies=["self._received_settings", "self._settings_received", "self._max_push_id"] + _Q_MOD,
    ensures=[
        "h3_writable(self)",
        # SETTINGS are accepted once, and only a validated dictionary is recorded
        "implies(old(self._settings_received), self._settings_received and frame_type != FrameType.SETTINGS)",
        "implies(frame_type == FrameType.SETTINGS, self._settings_received and self._received_settings is not None and h3_settings_ok(some(self._received_settings)))",
        "implies(frame_type != FrameType.SETTINGS, old(self._settings_received) and same(self._received_settings, old(self._received_settings)))",
        "implies(frame_type == FrameType.MAX_PUSH_ID, not self._is_client and h3_one_varint(frame_data))",
    ],
    on_raise={"ProtocolError": ["h3_writable(self)"]},
    prop=["C16"],
)

# ---------------------------------------------------------------------------------------------------------------- (5)
# QPACK wiring.  _decode_headers was an ASSUMED boundary in contracts/h3_headers.py (C15); here it is VERIFIED against the
# pylsqpack model, and the contract gains what C16 needs: the call protocol of the pending-block list (no ValueError from
# pylsqpack), the writability of the local decoder stream (no ValueError / AssertionError from send_stream_data), and the
# effect on the pending-block list.  Same `raises` as before, so C15's use of it is unchanged.
_DEC_MOD = ["self._decoder.g_pending", "self._decoder.g_blocked", "self._decoder_bytes_sent"] + _Q_MOD
R.spec(
    """
def h3_hdr_call_ok(c, sid, fresh):
    "pylsqpack call protocol: a new header block only for a stream with no pending block; a resumption only for a pending block that was reported unblocked"
    return ite(fresh, sid not in c._decoder.g_pending, sid in c._decoder.g_pending and sid not in c._decoder.g_blocked)

def h3_pending_minus(c, sid):
    return forall(lambda x: (x in c._decoder.g_pending) == (x in old(c._decoder.g_pending) and x != sid)) and forall(lambda x: implies(x in c._decoder.g_blocked, x in old(c._decoder.g_blocked)))

def h3_pending_plus(c, sid):
    return forall(lambda x: (x in c._decoder.g_pending) == (x in old(c._decoder.g_pending) or x == sid)) and forall(lambda x: implies(x in c._decoder.g_blocked, x in old(c._decoder.g_blocked) or x == sid))
"""
)
R.contract(
    "H3Connection._decode_headers",
    params={"frame_data": "Optional[bytes]"},
    returns="Headers",
    requires=["h3_writable(self)", "h3_hdr_call_ok(self, stream_id, frame_data is not None)"],
    raises={"QpackDecompressionFailed": None, "StreamBlocked": None},
    modifies=_DEC_MOD,
    ensures=["h3_writable(self)", "h3_pending_minus(self, stream_id)"],
    on_raise={
        "QpackDecompressionFailed": ["h3_writable(self)", "h3_pending_minus(self, stream_id)"],
        # only a NEW block can come back blocked (assumption Q1 for resumptions); it is then pending
        "StreamBlocked": ["h3_writable(self)", "frame_data is not None", "h3_pending_plus(self, stream_id)", "stream_id in self._decoder.g_pending"],
    },
    note="pylsqpack boundary",
    prop=["C16"],
)

# _handle_request_or_push_frame is under contract for C15 (contracts/h3_headers.py).  C16 ADDS to that contract (same
# object, so C15 re-proves the additions on every run): the preconditions that make the pylsqpack / send_stream_data calls
# total, the effect on the pending-block list, and - the C16 clause proper - BufferReadError is no longer a declared
# outcome: a PUSH_PROMISE payload that does not start with a complete push id must become a ProtocolError.
# FINDING (refuted on the unchanged tree, known_findings.json, fix: tools/fixes/c16_push_promise_truncated.patch).
_K = R.contracts["H3Connection._handle_request_or_push_frame"]
_K.requires += ["h3_writable(self)", "frame_data is not None or frame_type == FrameType.HEADERS", "h3_hdr_call_ok(self, stream.stream_id, frame_data is not None)"]
_K.raises.pop("BufferReadError", None)
_K.raises.setdefault("ProtocolError", None)  # any other HTTP/3 protocol error (with the fix: FrameError of a truncated PUSH_PROMISE)
_K.modifies += _DEC_MOD
_K.ensures += ["h3_writable(self)", "h3_pending_minus(self, stream.stream_id)"]
_K.on_raise["StreamBlocked"] = ["h3_writable(self)", "frame_data is not None", "h3_pending_plus(self, stream.stream_id)", "stream.stream_id in self._decoder.g_pending"]
_K.prop.append("C16")

# ---------------------------------------------------------------------------------------------------------------- (3)
# State of the HTTP/3 layer between two events (established by H3Connection.__init__: no stream, nothing pending; proved
# to be preserved by every function below - induction over the event sequence):
#   S1  every entry of _stream is filed under its own id and its incremental frame parser is consistent: a frame in progress
#       (frame_size set) has a type and a non-negative remaining size;
#   S2  a header block pending in the QPACK decoder belongs to a stream that is still in _stream and is flagged blocked
#       (so the stream can neither be handed a second header block nor be deleted before it is resumed).
R.spec(
    """
def h3s_ok(s):
    return s.frame_size is None or (s.frame_type is not None and some(s.frame_size) >= 0)

def h3_streams_ok(c):
    return forall(lambda k: implies(k in c._stream, c._stream[k].stream_id == k and h3s_ok(c._stream[k]))) and forall(lambda k: implies(k in c._decoder.g_pending, k in c._stream and c._stream[k].blocked))

def h3_filed(c, s):
    return s.stream_id in c._stream and c._stream[s.stream_id] == s

def h3_others_kept(c, sid):
    "header blocks of other streams are neither added nor removed, and none of them becomes blocked"
    return forall(lambda x: implies(x != sid, (x in c._decoder.g_pending) == (x in old(c._decoder.g_pending)) and implies(x in c._decoder.g_blocked, x in old(c._decoder.g_blocked))))
"""
)
R.contract("H3Connection._log_stream_type", params={"push_id": "Optional[int]"}, trusted=True, note="qlog helper: builds a JSON record from ints and literal strings and hands it to the logger (no decoding, no lookup that can fail)")

# ---------------------------------------------------------------------------------------------------------------- (6)
_STREAM_MOD = ["H3Stream.%s[*]" % f for f in ("buffer", "receiving_ended", "blocked", "blocked_frame_size", "frame_size", "frame_type", "session_id", "content_length", "expected_content_length", "headers_recv_state")]
# _receive_request_or_push_data is verified in two pieces that meet at the statement `buf = Buffer(data=stream.buffer)`
# (an assume-guarantee split at one program point, because path enumeration multiplies the ~25 ways through the
# shortcuts with the ~30 ways through the frame loop):
#   * the function contract is a PREFIX verification (stop_at): every path that returns before that statement proves the
#     postconditions, every path that reaches it proves _PARSE_PRE there (cuts);
#   * the block contract "@parse" (that statement to the end of the function, extracted from the real source on every
#     run) assumes exactly _PARSE_PRE and proves the same postconditions.
_PARSE_PRE = ["h3_writable(self)", "h3_streams_ok(self)", "h3_filed(self, stream)", "not stream.blocked"]
_RRP_POST = ["h3_writable(self)", "h3_streams_ok(self)", "h3_others_kept(self, stream.stream_id)", "same(self._stream, old(self._stream))"]
R.contract(
    "H3Connection._receive_request_or_push_data",
    params={"data": "bytes"},
    returns="list[H3Event]",
    requires=["h3_writable(self)", "h3_streams_ok(self)", "h3_filed(self, stream)"],
    raises=_PE,
    modifies=_STREAM_MOD + _DEC_MOD,
    ensures=_RRP_POST + ["implies(old(stream.blocked), stream.blocked and len(result) == 0)"],
    stop_at=["buf = Buffer(data=stream.buffer)"],
    cuts={"buf = Buffer(data=stream.buffer)": _PARSE_PRE},
    locals={"http_events": "list[H3Event]"},
    prop=["C16"],
)
R.contract(
    "H3Connection._receive_request_or_push_data@parse",
    region={"anchor": "buf = Buffer(data=stream.buffer)", "span": 5},
    params={"stream": "H3Stream", "stream_ended": "bool", "http_events": "list[H3Event]"},
    returns="list[H3Event]",
    assume_pre=_PARSE_PRE,
    raises=_PE,
    modifies=_STREAM_MOD + _DEC_MOD,
    ensures=_RRP_POST,
    loops={
        0: dict(
            invariant=[
                "0 <= buf.g_pos <= buf.g_cap and len(buf.g_mem) == buf.g_cap",
                "consumed == buf.g_pos",
                "not stream.blocked",
                "h3_writable(self)", "h3_streams_ok(self)", "h3_filed(self, stream)", "h3_others_kept(self, stream.stream_id)",
            ],
            modifies=["buf.g_pos", "stream.frame_type", "stream.frame_size", "stream.content_length", "stream.expected_content_length", "stream.headers_recv_state"] + _DEC_MOD,
        )
    },
    prop=["C16"],
)

# _receive_stream_data_uni, again in two pieces meeting at `for stream_id in unblocked_streams:`:
#   * function contract = PREFIX verification (stream-type demultiplexer loop: control / push / WebTransport / QPACK
#     decoder / QPACK encoder / unknown types); paths that return from inside the loop prove the postconditions, paths
#     that reach the for-loop prove _UNB_PRE;
#   * block contract "@unblock" (the for-loop over the unblocked stream ids and the final return) assumes _UNB_PRE.
# The KeyError site `self._stream[stream_id]` is discharged from S2: an id reported by feed_encoder names a pending header
# block, hence a stream that is still filed (it was never deleted because is_ended() is false while `blocked`).
R.spec(
    """
def h3_resumable(c, ids):
    return forall(lambda x: implies(x in ids, x in c._decoder.g_pending and x not in c._decoder.g_blocked))
"""
)
_UNB_PRE = ["h3_writable(self)", "h3_streams_ok(self)", "h3_resumable(self, unblocked_streams)"]
_UNI_POST = ["h3_writable(self)", "h3_streams_ok(self)", "same(self._stream, old(self._stream))"]
_UNI_MOD = _STREAM_MOD + ["H3Stream.stream_type[*]", "H3Stream.push_id[*]"] + _DEC_MOD + [
    "self._peer_control_stream_id", "self._peer_decoder_stream_id", "self._peer_encoder_stream_id", "self._decoder_bytes_received", "self._encoder_bytes_received",
    "self._received_settings", "self._settings_received", "self._max_push_id",
]
R.contract(
    "H3Connection._receive_stream_data_uni",
    params={"data": "bytes"},
    returns="list[H3Event]",
    requires=["h3_writable(self)", "h3_streams_ok(self)", "h3_filed(self, stream)"],
    raises=_PE,
    modifies=_UNI_MOD,
    ensures=_UNI_POST,
    stop_at=["for stream_id in unblocked_streams:"],
    cuts={"for stream_id in unblocked_streams:": _UNB_PRE + ["same(self._stream, old(self._stream))"]},
    locals={"http_events": "list[H3Event]", "unblocked_streams": "set[int]"},
    loops={
        0: dict(
            invariant=[
                "0 <= buf.g_pos <= buf.g_cap and len(buf.g_mem) == buf.g_cap",
                "h3_writable(self)", "h3_streams_ok(self)", "h3_filed(self, stream)", "h3_resumable(self, unblocked_streams)",
                "same(self._stream, old(self._stream))",
            ],
            modifies=["buf.g_pos", "stream.stream_type", "stream.push_id", "stream.session_id", "stream.buffer", "self._decoder.g_blocked",
                      "self._peer_control_stream_id", "self._peer_decoder_stream_id", "self._peer_encoder_stream_id", "self._decoder_bytes_received", "self._encoder_bytes_received",
                      "self._received_settings", "self._settings_received", "self._max_push_id"] + _Q_MOD,
        )
    },
    prop=["C16"],
)
R.contract(
    "H3Connection._receive_stream_data_uni@unblock",
    region={"anchor": "for stream_id in unblocked_streams:", "span": 2},
    params={"http_events": "list[H3Event]", "unblocked_streams": "set[int]"},
    returns="list[H3Event]",
    assume_pre=_UNB_PRE,
    raises=_PE,
    modifies=_UNI_MOD,
    ensures=_UNI_POST,
    loops={
        0: dict(
            invariant=[
                "0 <= _i0 <= len(_seq0)",
                "h3_writable(self)", "h3_streams_ok(self)", "same(self._stream, old(self._stream))",
                # the ids not yet visited are still resumable
                "forall(lambda j: implies(_i0 <= j < len(_seq0), sel(_seq0, j) in self._decoder.g_pending and sel(_seq0, j) not in self._decoder.g_blocked))",
            ],
            modifies=_STREAM_MOD + _DEC_MOD,
        )
    },
    prop=["C16"],
)

# ---------------------------------------------------------------------------------------------------------------- (7)
# Dispatch.  H3Stream.is_ended: a stream with a header block pending in the QPACK decoder is never "ended" - this is what
# keeps S2 true when _get_or_create_stream deletes ended streams.
R.contract("H3Stream.__init__", inline=True)
# an H3Stream created on the path is referenced from no dict / field of the heap (allocation freshness, engine/pyvc/interp.py)
R.consts.setdefault("ALLOC_FRESH", set()).add("H3Stream")
R.contract(
    "H3Stream.is_ended",
    returns="bool",
    modifies=[],
    check_frame=True,
    ensures=["implies(result, not self.blocked)", "implies(result, self.sending_ended and self.receiving_ended)", "implies(self.sending_ended and self.receiving_ended and not self.blocked, result)"],
    prop=["C16"],
)
_RSD_MOD = _UNI_MOD + ["self._stream"]
R.contract(
    "H3Connection._receive_stream_data",
    params={"event": "StreamDataReceived"},
    returns="list[H3Event]",
    # the event names a real stream (crypto "streams" have no id and never produce events for the application)
    requires=["h3_writable(self)", "h3_streams_ok(self)", "event.stream_id is not None"],
    raises=_PE,
    modifies=_RSD_MOD,
    ensures=["h3_writable(self)", "h3_streams_ok(self)"],
    on_raise={"ProtocolError": []},
    prop=["C16"],
)
# handle_event: NOTHING escapes (MemoryError = allocation failure aside), whatever the event carries.  Case split on the
# dynamic class of the event (the engine types parameters statically): StreamDataReceived / DatagramFrameReceived / other.
_HE = dict(
    returns="list[H3Event]",
    # S1/S2: inductive - established by __init__ (empty _stream, fresh decoder), re-proved at every exit
    requires=["self._is_done or h3_streams_ok(self)"],
    # ASSUMPTION W (transport state, NOT peer stream bytes): the local QPACK streams were neither finished nor reset.
    # A peer STOP_SENDING on one of them breaks it: the layer then stops, see H3Connection.handle_event#stop_sending
    assume_pre=["h3_writable(self)"],
    raises={"MemoryError": None},
    modifies=_RSD_MOD + ["self._is_done", "self._quic._close_event", "self._quic._close_pending"],
    ensures=[
        "self._is_done or h3_streams_ok(self)",
        # a stopped layer stays stopped and yields nothing
        "implies(old(self._is_done), self._is_done and len(result) == 0)",
        # "... or closes the connection": the layer stops only together with a close request to the transport
        "implies(self._is_done and not old(self._is_done), len(result) == 0 and (self._quic._close_event is not None or in_end_state(self._quic._state)))",
    ],
    prop=["C16"],
)
R.contract("H3Connection.handle_event", params={"event": "StreamDataReceived"}, **dict(_HE, requires=_HE["requires"] + ["event.stream_id is not None"]))
R.contract("H3Connection.handle_event#datagram", params={"event": "DatagramFrameReceived"}, **_HE)
R.contract("H3Connection.handle_event#other", params={"event": "ConnectionTerminated"}, **_HE)
# STOP_SENDING for one of this endpoint's critical streams (control, QPACK encoder, QPACK decoder): the transport has reset
# the sending half, so assumption W no longer holds for it - the layer must stop (H3_CLOSED_CRITICAL_STREAM) before any
# later header block would write to that stream (added with the /repo fix 004f410; before it AssertionError escaped the
# next handle_event, tools/repro/c16_stop_sending_qpack_stream.py)
R.field_types("StopSendingReceived", error_code="int", stream_id="int")
R.contract(
    "H3Connection.handle_event#stop_sending",
    params={"event": "StopSendingReceived"},
    **dict(_HE, ensures=_HE["ensures"] + [
        "implies(self._local_control_stream_id is not None and event.stream_id == some(self._local_control_stream_id), self._is_done)",
        "implies(self._local_decoder_stream_id is not None and event.stream_id == some(self._local_decoder_stream_id), self._is_done)",
        "implies(self._local_encoder_stream_id is not None and event.stream_id == some(self._local_encoder_stream_id), self._is_done)",
    ]),
)

# ---------------------------------------------------------------------------------------------------------------- (8)
# HTTP/0.9.  bytes methods (CPython, trusted): only what the request-line parser relies on.
R.spec(
    """
def b_has(b, c):
    return exists(lambda i: 0 <= i < len(b) and elem(b, i) == c)
"""
)
R.contract("bytes.endswith", trusted=True, returns="bool", params={"a0": "bytes", "a1": "bytes"}, note="CPython bytes.endswith: total")
R.contract("bytes.rstrip", trusted=True, returns="bytes", params={"a0": "bytes"}, ensures=["len(result) <= len(a0)"], note="CPython bytes.rstrip(): total; the result is a prefix of the receiver")
R.contract(
    "bytes.split",
    trusted=True,
    returns="list[bytes]",
    params={"a0": "bytes", "a1": "bytes", "a2": "int"},
    requires=["len(a1) == 1 and a2 == 1"],
    # b.split(sep, 1) with a one-byte separator: two pieces exactly when the separator occurs, otherwise the whole string
    ensures=["len(result) == ite(b_has(a0, elem(a1, 0)), 2, 1)"],
    note="CPython bytes.split(sep, 1): total for a non-empty separator",
)
R.field_types("H0Connection", _buffer="dict[int,bytes]", _headers_received="dict[int,bool]", _is_client="bool")
_H0 = dict(
    returns="list[H3Event]",
    raises={},
    modifies=["self._buffer", "self._headers_received"],
    ensures=["len(result) <= 2"],
    prop=["C16"],
)
R.contract("H0Connection.handle_event", params={"event": "StreamDataReceived"}, **dict(_H0, requires=["event.stream_id is not None"]))
R.contract("H0Connection.handle_event#other", params={"event": "ConnectionTerminated"}, **_H0)
# (fix tools/fixes/c16_h0_request_line.patch uses bytes.partition: total, three pieces)
R.contract("bytes.partition", trusted=True, returns="tuple[bytes,bytes,bytes]", params={"a0": "bytes", "a1": "bytes"}, requires=["len(a1) >= 1"],
           ensures=["len(result[0]) + len(result[1]) + len(result[2]) == len(a0)"], note="CPython bytes.partition(sep): total for a non-empty separator")

# ---------------------------------------------------------------------------------------------------------------- (9)
# "After such a close the transport can still emit its closing packet, whatever text the error message contains."
# str.encode("utf8") (CPython, trusted): UnicodeEncodeError exactly for strings with lone surrogates (uninterpreted predicate
# str_utf8_ok); the result is a function of the string (str_utf8), empty for the empty string, 1..4 bytes per character.
R.ufunc("str_utf8_ok", ["str"], "bool")
R.ufunc("str_utf8", ["str"], "bytes")
R.contract(
    "str.encode",
    trusted=True,
    returns="bytes",
    params={"a0": "str", "a1": "str"},
    raises={"UnicodeEncodeError": "not str_utf8_ok(a0)"},
    ensures=["same(result, str_utf8(a0))", "len(a0) <= len(result) <= 4 * len(a0)"],
    on_raise={"UnicodeEncodeError": ["len(a0) > 0"]},
    note="CPython str.encode('utf8')",
)
R.spec(
    """
def cc_early(epoch, frame_type):
    "an application-level close in the Initial / Handshake packet number space is sent as a transport close WITHOUT the reason (RFC 9000 10.2.3)"
    return frame_type is None and (epoch == Epoch.INITIAL or epoch == Epoch.HANDSHAKE)

def cc_overhead(epoch, frame_type):
    "frame type byte + the varints of the close frame, as the code budgets them"
    return ite(frame_type is None and not cc_early(epoch, frame_type), 17, 25)
"""
)
_CC_COMMON = dict(
    params={"epoch": "Epoch", "frame_type": "Optional[int]", "reason_phrase": "str"},
    # from the call site (close branch of datagrams_to_send): a packet was just started; codes are varints
    requires=["builder._packet is not None", "0 <= error_code <= %d" % UV, "frame_type is None or 0 <= some(frame_type) <= %d" % UV],
    assume_pre=["self._quic_logger is None or builder.quic_logger_frames is not None"],
    let={"rb": "builder._buffer_capacity - builder._buffer.g_pos - 16"},
    modifies=["builder._buffer.g_pos", "builder._buffer.g_mem", "builder.quic_logger_frames", "QuicSentPacket.is_ack_eliciting[*]", "QuicSentPacket.in_flight[*]", "QuicSentPacket.is_crypto_packet[*]", "QuicSentPacket.delivery_handlers[*]"],
    cuts={
        # the reason length announced to the packet builder is that of the phrase sent AT THIS ENCRYPTION LEVEL (the empty
        # phrase for an application close in the early spaces), never of a phrase that was replaced
        "if frame_type is None:": ["reason_length <= len(str_utf8(reason_phrase))", "implies(cc_early(epoch, old(frame_type)), reason_length == 0)"],
    },
    ensures=[
        # exactly one close frame, within the announced budget
        "builder._buffer.g_pos <= old(builder._buffer.g_pos) + cc_overhead(epoch, old(frame_type)) + len(str_utf8(reason_phrase))",
        "builder._buffer.g_pos > old(builder._buffer.g_pos)",
        "builder._buffer.g_pos + 16 <= builder._buffer_capacity",
    ],
    prop=["C16"],
)
# C16 clause: WHATEVER the reason text, the frame writer refuses (QuicPacketBuilderStop) only when not even the bare close
# frame fits the packet; no BufferWriteError / ValueError from the pushes; UnicodeEncodeError only for text that has no
# UTF-8 encoding (lone surrogates - cannot come from the HTTP layer, whose messages are formatted from bytes reprs / ints).
# FINDING on the unchanged tree (refuted: raises.QuicPacketBuilderStop.if): a reason longer than the room left in the
# packet makes start_frame refuse; known_findings.json, fix tools/fixes/c16_close_reason_truncate.patch.
R.contract(
    "QuicConnection._write_connection_close_frame",
    raises={
        "QuicPacketBuilderStop": "rb < cc_overhead(epoch, frame_type)",
        "UnicodeEncodeError": "not cc_early(epoch, frame_type) and not str_utf8_ok(reason_phrase)",
    },
    **_CC_COMMON,
)
# bytes.isdigit (CPython, trusted): non-empty and every byte an ASCII digit.  Not used by the unchanged tree; declared so that a
# rewrite of the content-length check in terms of isdigit() (seeded defect 2) is decided rather than unsupported.
R.contract("bytes.isdigit", trusted=True, returns="bool", params={"a0": "bytes"},
           ensures=["result == (len(a0) >= 1 and forall(lambda i: implies(0 <= i < len(a0), py_digit(elem(a0, i)))))"], note="CPython bytes.isdigit(): total")
# bytes.decode("utf8", "ignore") (CPython, trusted; used by the fix tools/fixes/c16_close_reason_truncate.patch): total; undecodable
# bytes are dropped, so re-encoding the result gives at most as many bytes
R.contract("bytes.decode:ignore", trusted=True, returns="str", params={"a0": "bytes", "a1": "str", "a2": "str"},
           ensures=["str_utf8_ok(result)", "len(str_utf8(result)) <= len(a0)"], note="CPython bytes.decode('utf8', 'ignore')")

# ---------------------------------------------------------------------------------------------------------------- (11)
# HISTORY 2 (round-3 finding, repaired in /repo): W was STILL breakable by the peer with events handed over in order - the
# transport resets the send half when it PARSES the STOP_SENDING frame, while the StopSendingReceived event is queued behind
# the StreamDataReceived events of the same datagram; handling those first, _handle_control_frame (SETTINGS -> encoder
# stream) and _decode_headers (decoder stream) wrote to the reset stream: AssertionError out of handle_event
# (tools/repro/c16_write_after_stop_sending.py).  The transport now discards writes on a stream the peer stopped
# (QuicStreamSender.stopped_by_peer); q_open says so, _handle_stop_sending_frame is OBLIGED to preserve q_open of every
# stream (contracts/quic_noraise.py), so the only ways left to break W are local API calls (reset_stream / end_stream on
# a QPACK stream), which the HTTP/3 layer never makes.
# HISTORY: assumption W (h3_writable) is not an invariant of the system - the peer can break it with a transport frame.
# On the pinned tree a STOP_SENDING for this endpoint's QPACK decoder stream followed by any HEADERS frame made
# _decode_headers call send_stream_data on a reset stream: AssertionError escaped H3Connection.handle_event.  Repaired in
# /repo (004f410): the StopSendingReceived event for a critical stream now stops the layer - contract
# H3Connection.handle_event#stop_sending above.  W is therefore assumed only for layers that have NOT been handed such an
# event, i.e. it relies on the application passing transport events to handle_event in the order the transport produced
# them (as asyncio's QuicConnectionProtocol does).
