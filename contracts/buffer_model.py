# Python-level contract of the C class aioquic._buffer.Buffer, as used by pyvc when verifying Python callers.
#
# TRUSTED at Python call sites, but not free-standing: each clause restates, over mathematical integers, the
# postcondition that engine/cwp PROVES on the real _buffer.c (contracts/c_buffer.py: big-endian fixed-width
# codecs, RFC 9000 §16 varints, BufferReadError / BufferWriteError exactly when the bytes do not fit, position
# and bytes otherwise unchanged), and the bounded stand-in `cbuffer-model` compares the compiled C with an
# independent reference model of exactly these clauses on every run.
# Ghost fields: g_cap (capacity), g_pos (position), g_mem (the capacity bytes).

R.extern_module(
    "_buffer.py",
    """
class BufferReadError(ValueError):
    pass

class BufferWriteError(ValueError):
    pass

class Buffer:
    def __init__(self, capacity: int = 0, data: Optional[bytes] = None) -> None: ...
    @property
    def capacity(self) -> int: ...
    @property
    def data(self) -> bytes: ...
    def data_slice(self, start: int, end: int) -> bytes: ...
    def eof(self) -> bool: ...
    def seek(self, pos: int) -> None: ...
    def tell(self) -> int: ...
    def pull_bytes(self, length: int) -> bytes: ...
    def pull_uint8(self) -> int: ...
    def pull_uint16(self) -> int: ...
    def pull_uint32(self) -> int: ...
    def pull_uint64(self) -> int: ...
    def pull_uint_var(self) -> int: ...
    def push_bytes(self, value: bytes) -> None: ...
    def push_uint8(self, value: int) -> None: ...
    def push_uint16(self, value: int) -> None: ...
    def push_uint32(self, value: int) -> None: ...
    def push_uint64(self, value: int) -> None: ...
    def push_uint_var(self, value: int) -> None: ...
""",
)

R.field_types("Buffer", g_cap="int", g_pos="int", g_mem="bytes")
R.invariant("Buffer", ["0 <= self.g_pos <= self.g_cap", "len(self.g_mem) == self.g_cap"])

R.spec(
    """
def be1(m, p):
    return at(m, p)

def be2(m, p):
    return at(m, p) * 256 + at(m, p + 1)

def be4(m, p):
    return ((at(m, p) * 256 + at(m, p + 1)) * 256 + at(m, p + 2)) * 256 + at(m, p + 3)

def be8(m, p):
    return be4(m, p) * 4294967296 + be4(m, p + 4)

def varint_len(b0):
    return ite(b0 < 64, 1, ite(b0 < 128, 2, ite(b0 < 192, 4, 8)))

def varint_val(m, p):
    return ite(at(m, p) < 64, be1(m, p),
           ite(at(m, p) < 128, be2(m, p) - 16384,
           ite(at(m, p) < 192, be4(m, p) - 2147483648, be8(m, p) - 13835058055282163712)))

def varint_size(v):
    return ite(v <= 63, 1, ite(v <= 16383, 2, ite(v <= 1073741823, 4, 8)))

def buf_same(b):
    return b.g_pos == old(b.g_pos) and b.g_cap == old(b.g_cap) and same(b.g_mem, old(b.g_mem))

def buf_mem_same(b):
    return b.g_cap == old(b.g_cap) and same(b.g_mem, old(b.g_mem))
"""
)

_T = dict(trusted=True, note="Python-level restatement of the cwp-proved contract of _buffer.c")

R.contract(
    "Buffer.__init__",
    params={"data": "Optional[bytes]"},
    raises={"ValueError": "data is None and capacity < 0", "MemoryError": None},
    modifies=["self.g_cap", "self.g_pos", "self.g_mem"],
    ensures=[
        "self.g_pos == 0",
        "implies(data is not None, self.g_cap == len(some(data)) and bytes_eq(self.g_mem, some(data)))",
        "implies(data is None, self.g_cap == capacity)",
    ],
    **_T,
)
R.contract("Buffer.capacity", returns="int", ensures=["result == self.g_cap", "buf_same(self)"], **_T)
R.contract("Buffer.data", returns="bytes", ensures=["bytes_eq(result, self.g_mem[: self.g_pos])", "buf_same(self)"], **_T)
R.contract("Buffer.tell", returns="int", ensures=["result == self.g_pos", "buf_same(self)"], **_T)
R.contract("Buffer.eof", returns="bool", ensures=["result == (self.g_pos == self.g_cap)", "buf_same(self)"], **_T)
R.contract(
    "Buffer.seek",
    raises={"BufferReadError": "pos < 0 or pos > self.g_cap"},
    modifies=["self.g_pos"],
    ensures=["self.g_pos == pos", "buf_mem_same(self)"],
    on_raise={"BufferReadError": ["buf_same(self)"]},
    **_T,
)
R.contract(
    "Buffer.data_slice",
    returns="bytes",
    raises={"BufferReadError": "start < 0 or start > self.g_cap or end < 0 or end > self.g_cap or end < start"},
    ensures=["bytes_eq(result, self.g_mem[start:end])", "len(result) == end - start", "buf_same(self)"],
    on_raise={"BufferReadError": ["buf_same(self)"]},
    **_T,
)
R.contract(
    "Buffer.pull_bytes",
    returns="bytes",
    raises={"BufferReadError": "length < 0 or self.g_pos + length > self.g_cap"},
    modifies=["self.g_pos"],
    ensures=["len(result) == length", "bytes_eq(result, self.g_mem[old(self.g_pos) : old(self.g_pos) + length])", "self.g_pos == old(self.g_pos) + length", "buf_mem_same(self)"],
    on_raise={"BufferReadError": ["buf_same(self)"]},
    **_T,
)
for _n, _f in ((1, "be1"), (2, "be2"), (4, "be4"), (8, "be8")):
    R.contract(
        "Buffer.pull_uint%d" % (8 * _n),
        returns="int",
        raises={"BufferReadError": "self.g_pos + %d > self.g_cap" % _n},
        modifies=["self.g_pos"],
        ensures=["result == %s(self.g_mem, old(self.g_pos))" % _f, "0 <= result < %d" % (256 ** _n), "self.g_pos == old(self.g_pos) + %d" % _n, "buf_mem_same(self)"],
        on_raise={"BufferReadError": ["buf_same(self)"]},
        **_T,
    )
R.contract(
    "Buffer.pull_uint_var",
    returns="int",
    raises={"BufferReadError": "self.g_pos >= self.g_cap or self.g_pos + varint_len(at(self.g_mem, self.g_pos)) > self.g_cap"},
    modifies=["self.g_pos"],
    ensures=[
        "result == varint_val(self.g_mem, old(self.g_pos))",
        "0 <= result <= 4611686018427387903",
        "self.g_pos == old(self.g_pos) + varint_len(at(self.g_mem, old(self.g_pos)))",
        "buf_mem_same(self)",
    ],
    on_raise={"BufferReadError": ["buf_same(self)"]},
    **_T,
)
R.contract(
    "Buffer.push_bytes",
    params={"value": "bytes"},
    raises={"BufferWriteError": "self.g_pos + len(value) > self.g_cap"},
    modifies=["self.g_pos", "self.g_mem"],
    ensures=[
        "self.g_pos == old(self.g_pos) + len(value)",
        "self.g_cap == old(self.g_cap)",
        "forall(lambda k: implies(0 <= k < self.g_cap, at(self.g_mem, k) == ite(old(self.g_pos) <= k < self.g_pos, at(value, k - old(self.g_pos)), at(old(self.g_mem), k))))",
    ],
    on_raise={"BufferWriteError": ["buf_same(self)"]},
    **_T,
)
for _n in (1, 2, 4, 8):
    R.contract(
        "Buffer.push_uint%d" % (8 * _n),
        requires=["0 <= value < %d" % (256 ** _n)],
        raises={"BufferWriteError": "self.g_pos + %d > self.g_cap" % _n},
        modifies=["self.g_pos", "self.g_mem"],
        ensures=[
            "self.g_pos == old(self.g_pos) + %d" % _n,
            "self.g_cap == old(self.g_cap)",
            "%s(self.g_mem, old(self.g_pos)) == value" % {1: "be1", 2: "be2", 4: "be4", 8: "be8"}[_n],
            "forall(lambda k: implies(0 <= k < self.g_cap and not (old(self.g_pos) <= k < self.g_pos), at(self.g_mem, k) == at(old(self.g_mem), k)))",
        ],
        on_raise={"BufferWriteError": ["buf_same(self)"]},
        **_T,
    )
R.contract(
    "Buffer.push_uint_var",
    requires=["0 <= value"],
    raises={"ValueError": "value > 4611686018427387903", "BufferWriteError": "value <= 4611686018427387903 and self.g_pos + varint_size(value) > self.g_cap"},
    modifies=["self.g_pos", "self.g_mem"],
    ensures=[
        "self.g_pos == old(self.g_pos) + varint_size(value)",
        "self.g_cap == old(self.g_cap)",
        "varint_val(self.g_mem, old(self.g_pos)) == value",
        "varint_len(at(self.g_mem, old(self.g_pos))) == varint_size(value)",
        "forall(lambda k: implies(0 <= k < self.g_cap and not (old(self.g_pos) <= k < self.g_pos), at(self.g_mem, k) == at(old(self.g_mem), k)))",
    ],
    on_raise={"BufferWriteError": ["buf_same(self)"], "ValueError": ["buf_same(self)"]},
    **_T,
)
