# Sidecar contracts for the connection-ID lifecycle of src/aioquic/quic/connection.py  (property C18; R is injected)
#
# Peer side (IDs issued BY the peer, used as destination of our packets):
#     _peer_cid (current), _peer_cid_available (spares, in arrival order), _peer_cid_sequence_numbers (every
#     sequence number ever accepted), _peer_retire_prior_to (highest retire-prior-to received),
#     _retire_connection_ids (sequence numbers whose RETIRE_CONNECTION_ID frame is still to be written)
# Host side (IDs issued BY us): _host_cids, _host_cid_seq
#
# The invariants PC / HC of DESIGN §5 "C18" are spec predicates; they are `requires` of the entry points (assumed at
# entry) and `ensures` of every function that writes the fields (proved at every normal exit), i.e. an inductive
# invariant over the functions listed in engine/props.py PROPS["C18"].  They are NOT registered with R.invariant so
# that the other QuicConnection functions under contract do not get extra obligations.
#
# Frames: pyvc does not check `modifies`, so every contract below states explicitly (ensures) what stays unchanged.

R.field_types(
    "QuicConnection",
    _peer_cid="QuicConnectionId",
    _peer_cid_available="list[QuicConnectionId]",
    _peer_cid_sequence_numbers="set[int]",
    _peer_retire_prior_to="int",
    _retire_connection_ids="list[int]",
    _host_cid_seq="int",
    _local_active_connection_id_limit="int",
    _remote_active_connection_id_limit="int",
)
R.field_types("QuicConnectionId", cid="bytes", sequence_number="int", stateless_reset_token="bytes", was_sent="bool")
R.field_types("QuicReceiveContext", host_cid="bytes")
# engine/pyvc/interp.py _assume_unreferenced: a QuicConnectionId being constructed is referenced from no list / field
R.consts.setdefault("ALLOC_FRESH", set()).add("QuicConnectionId")

R.spec(
    """
def PA(c):
    return c._peer_cid_available

def RQ(c):
    return c._retire_connection_ids

def SEEN(c, s):
    return s in c._peer_cid_sequence_numbers

def held(c, s):
    return c._peer_cid.sequence_number == s or exists(lambda k: 0 <= k < len(PA(c)) and sel(PA(c), k).sequence_number == s)

def queued_from(c, n0, s):
    return exists(lambda m: n0 <= m < len(RQ(c)) and sel(RQ(c), m) == s)

def pc_floor(c):
    return c._peer_cid.sequence_number >= c._peer_retire_prior_to and forall(lambda k: implies(0 <= k < len(PA(c)), sel(PA(c), k).sequence_number >= c._peer_retire_prior_to))

def pc_distinct(c):
    return forall(lambda j, k: implies(0 <= j < k < len(PA(c)), sel(PA(c), j).sequence_number != sel(PA(c), k).sequence_number)) and forall(lambda k: implies(0 <= k < len(PA(c)), sel(PA(c), k).sequence_number != c._peer_cid.sequence_number))

def pc_seen(c):
    return SEEN(c, c._peer_cid.sequence_number) and forall(lambda k: implies(0 <= k < len(PA(c)), SEEN(c, sel(PA(c), k).sequence_number)))

def pc_limit(c):
    return 1 + len(PA(c)) <= c._local_active_connection_id_limit

def retire_cap(c):
    return min(c._local_active_connection_id_limit * 4, 100)

def rq_prefix_kept(c):
    return len(RQ(c)) >= old(len(RQ(c))) and forall(lambda m: implies(0 <= m < old(len(RQ(c))), sel(RQ(c), m) == sel(old(RQ(c)), m)))

def peer_cfg_same(c):
    return c._local_active_connection_id_limit == old(c._local_active_connection_id_limit)

def peer_ids_same(c):
    return c._peer_cid == old(c._peer_cid) and same(PA(c), old(PA(c))) and c._peer_cid.sequence_number == old(c._peer_cid.sequence_number) and same(c._peer_cid.cid, old(c._peer_cid.cid)) and forall(lambda k: implies(0 <= k < len(PA(c)), sel(PA(c), k).sequence_number == old(sel(PA(c), k).sequence_number) and same(sel(PA(c), k).cid, old(sel(PA(c), k).cid))))

def peer_same(c):
    return peer_ids_same(c) and same(c._peer_cid_sequence_numbers, old(c._peer_cid_sequence_numbers)) and c._peer_retire_prior_to == old(c._peer_retire_prior_to) and same(RQ(c), old(RQ(c))) and peer_cfg_same(c)
"""
)

PC = ["pc_floor(self)", "pc_distinct(self)", "pc_seen(self)", "pc_limit(self)"]

# ---------------------------------------------------------------------------------------------- helpers (peer side)

# helper: announce the retirement of one peer-issued ID.  Only the pending-retirement queue changes; in particular the
# sequence number stays recorded as seen (so a late duplicate NEW_CONNECTION_ID cannot bring the ID back).
R.contract(
    "QuicConnection._retire_peer_cid",
    modifies=["self._retire_connection_ids"],
    ensures=[
        "len(RQ(self)) == old(len(RQ(self))) + 1",
        "sel(RQ(self), len(RQ(self)) - 1) == connection_id.sequence_number",
        "rq_prefix_kept(self)",
        "peer_ids_same(self)",
        "same(self._peer_cid_sequence_numbers, old(self._peer_cid_sequence_numbers))",
        "self._peer_retire_prior_to == old(self._peer_retire_prior_to)",
        "peer_cfg_same(self)",
        "connection_id.sequence_number == old(connection_id.sequence_number)",
    ],
    prop=["C18"],
)

# helper: switch to the oldest spare.  With no spare the function fails with IndexError (precondition of the callers).
R.contract(
    "QuicConnection._consume_peer_cid",
    raises={"IndexError": "len(self._peer_cid_available) == 0"},
    on_raise={"IndexError": ["peer_same(self)"]},
    modifies=["self._peer_cid", "self._peer_cid_available"],
    ensures=[
        "self._peer_cid == sel(old(PA(self)), 0)",
        "len(PA(self)) == old(len(PA(self))) - 1",
        "forall(lambda k: implies(0 <= k < len(PA(self)), sel(PA(self), k) == sel(old(PA(self)), k + 1)))",
        "self._peer_cid.sequence_number == old(sel(PA(self), 0).sequence_number) and same(self._peer_cid.cid, old(sel(PA(self), 0).cid))",
        "forall(lambda k: implies(0 <= k < len(PA(self)), sel(PA(self), k).sequence_number == old(sel(PA(self), k + 1).sequence_number) and same(sel(PA(self), k).cid, old(sel(PA(self), k + 1).cid))))",
        # the same index shift stated from the old list's side (instantiation help for callers)
        "forall(lambda i: implies(1 <= i < old(len(PA(self))), sel(old(PA(self)), i) == sel(PA(self), i - 1) and old(sel(PA(self), i).sequence_number) == sel(PA(self), i - 1).sequence_number))",
        "same(self._peer_cid_sequence_numbers, old(self._peer_cid_sequence_numbers))",
        "self._peer_retire_prior_to == old(self._peer_retire_prior_to)",
        "same(RQ(self), old(RQ(self)))",
        "peer_cfg_same(self)",
    ],
    prop=["C18"],
)

# ---------------------------------------------------------------------------------------------- local / peer-initiated ID change

# change_connection_id(): public API and the peer-initiated switch in receive_datagram.  With a spare ID: the oldest
# spare becomes current, the previous current ID is abandoned and its retirement announced (queued exactly once);
# with no spare ID nothing changes (in particular nothing is retired).  Never brings back an abandoned ID.
R.contract(
    "QuicConnection.change_connection_id",
    requires=PC,
    modifies=["self._peer_cid", "self._peer_cid_available", "self._retire_connection_ids"],
    exit_cuts=[
        "forall(lambda i: implies(1 <= i < old(len(PA(self))), old(sel(PA(self), i).sequence_number) == sel(PA(self), i - 1).sequence_number))",
    ],
    ensures=PC
    + [
        "implies(old(len(PA(self))) == 0, peer_same(self))",
        "implies(old(len(PA(self))) > 0, self._peer_cid == sel(old(PA(self)), 0) and self._peer_cid.sequence_number == old(sel(PA(self), 0).sequence_number) and same(self._peer_cid.cid, old(sel(PA(self), 0).cid)))",
        "implies(old(len(PA(self))) > 0, len(PA(self)) == old(len(PA(self))) - 1 and forall(lambda k: implies(0 <= k < len(PA(self)), sel(PA(self), k) == sel(old(PA(self)), k + 1) and sel(PA(self), k).sequence_number == old(sel(PA(self), k + 1).sequence_number) and same(sel(PA(self), k).cid, old(sel(PA(self), k + 1).cid)))))",
        "implies(old(len(PA(self))) > 0, len(RQ(self)) == old(len(RQ(self))) + 1 and sel(RQ(self), len(RQ(self)) - 1) == old(self._peer_cid.sequence_number))",
        "rq_prefix_kept(self)",
        # abstract form (what the property says): the only ID abandoned is the previous current one, it is announced,
        # and no ID that was not held before is held afterwards
        "forall(lambda s: implies(old(held(self, s)) and not held(self, s), s == old(self._peer_cid.sequence_number) and queued_from(self, old(len(RQ(self))), s)))",
        "forall(lambda s: implies(held(self, s), old(held(self, s))))",
        "same(self._peer_cid_sequence_numbers, old(self._peer_cid_sequence_numbers))",
        "self._peer_retire_prior_to == old(self._peer_retire_prior_to)",
        "peer_cfg_same(self)",
    ],
    prop=["C18"],
)

# ---------------------------------------------------------------------------------------------- NEW_CONNECTION_ID

# C18, peer side.  After the frame has been processed normally:
#   * the recorded retire-prior-to is the highest one ever received (E_rpt), the current ID and every spare are at or
#     above it, distinct, recorded as seen, and at most the advertised limit are kept (PC);
#   * every ID that was held and is no longer held has its retirement queued, once, after the older entries (E_ann*);
#   * only IDs below retire-prior-to are abandoned, the current ID is kept unless it is below it (E_keep*);
#   * the only ID that can become held is the frame's own, and only if its sequence number was never seen before -
#     an ID that was abandoned earlier is never held (hence never used as destination) again (E_new*, E_seen*);
#   * at most min(4*limit, MAX_PENDING_RETIRES) retirements are pending (E_cap).
# CONNECTION_ID_LIMIT_ERROR exactly when one of the two bounds would be exceeded, PROTOCOL_VIOLATION exactly when
# retire_prior_to > sequence_number (ID state untouched) or when the frame leaves no ID to switch to (NO_ID_LEFT below),
# FRAME_ENCODING_ERROR exactly when the ID length is outside 1..20 (ID state untouched).
#
# HISTORY: on the pinned tree `_consume_peer_cid()` was reached with no spare ID when the current ID is below the new
# retire-prior-to, no spare is at or above it and the frame's own sequence number was already seen (e.g. consumed and
# retired by change_connection_id()): IndexError escaped the handler and receive_datagram.  The clause "there is an ID
# to switch to" was refuted on that tree (tools/repro_c18_indexerror.py), the handler was repaired in /repo (fix: commit
# recorded in known_findings.json): such a frame is now refused with PROTOCOL_VIOLATION before _consume_peer_cid().
# NO_ID_LEFT, in terms of the entry state: the frame forces the current ID to be abandoned and leaves no ID to switch to -
# no spare at or above the new retire-prior-to, and the frame's own ID is not acceptable (below it, or already seen).
_NEWRPT = "max(old(self._peer_retire_prior_to), retire_prior_to)"
NO_ID_LEFT = (
    "(retire_prior_to <= sequence_number"
    " and old(self._peer_cid.sequence_number) < NEWRPT"
    " and forall(lambda k: implies(0 <= k < old(len(PA(self))), old(sel(PA(self), k).sequence_number) < NEWRPT))"
    " and not (sequence_number >= NEWRPT and not old(SEEN(self, sequence_number))))"
).replace("NEWRPT", _NEWRPT)
# Witness form of "what happened to every ID that was held" (locals of the function: sequence_number, retire_prior_to,
# change_cid; _lc0_* / _lc1_* are the index maps of the two filters over the old spare list, engine/pyvc/comp.py;
# n0 / m0 = old lengths of the retirement queue / spare list; OFF = 1 when the current ID had to be abandoned).
# Together: the retirement queue grows by exactly [old current if below retire-prior-to] + [old spares below it, in
# order, each once] (E_ann), every other old spare is still held, same object, same sequence number (E_keep).
_OFF = "ite(change_cid, 1, 0)"
_NCID_WITNESS = [
    # E_ann0: the current ID is abandoned exactly when it is below retire-prior-to, and then announced first
    "change_cid == (old(self._peer_cid.sequence_number) < self._peer_retire_prior_to) and implies(change_cid, n0 < len(RQ(self)) and sel(RQ(self), n0) == old(self._peer_cid.sequence_number))",
    # E_ann1: every old spare below retire-prior-to is announced
    "forall(lambda i: implies(0 <= i < m0 and old(sel(PA(self), i).sequence_number) < self._peer_retire_prior_to, n0 + OFF <= n0 + OFF + _lc0_dst[i] < len(RQ(self)) and sel(RQ(self), n0 + OFF + _lc0_dst[i]) == old(sel(PA(self), i).sequence_number)), pattern=_lc0_dst[i])",
    # E_ann2: nothing else is announced, and nothing twice
    "forall(lambda m: implies(n0 + OFF <= m < len(RQ(self)), 0 <= _lc0_src[m - n0 - OFF] < m0 and sel(RQ(self), m) == old(sel(PA(self), _lc0_src[m - n0 - OFF]).sequence_number) and sel(RQ(self), m) < self._peer_retire_prior_to), pattern=sel(RQ(self), m))",
    "forall(lambda j, m: implies(n0 + OFF <= j < m < len(RQ(self)), _lc0_src[j - n0 - OFF] < _lc0_src[m - n0 - OFF]))",
    # E_keep: every old spare at or above retire-prior-to is still held (as a spare, or as the new current ID)
    "forall(lambda i: implies(0 <= i < m0 and old(sel(PA(self), i).sequence_number) >= self._peer_retire_prior_to and not (change_cid and _lc1_dst[i] == 0), 0 <= _lc1_dst[i] - OFF < len(PA(self)) and sel(PA(self), _lc1_dst[i] - OFF) == sel(old(PA(self)), i) and sel(PA(self), _lc1_dst[i] - OFF).sequence_number == old(sel(PA(self), i).sequence_number)), pattern=_lc1_dst[i])",
    "forall(lambda i: implies(0 <= i < m0 and old(sel(PA(self), i).sequence_number) >= self._peer_retire_prior_to and change_cid and _lc1_dst[i] == 0, self._peer_cid == sel(old(PA(self)), i) and self._peer_cid.sequence_number == old(sel(PA(self), i).sequence_number)), pattern=_lc1_dst[i])",
    # the spares kept from before carry sequence numbers seen before (so the frame's own, if accepted, is the last one)
    "forall(lambda k: implies(0 <= k < len(PA(self)) and not (k == len(PA(self)) - 1 and sequence_number >= self._peer_retire_prior_to and not old(SEEN(self, sequence_number))), old(SEEN(self, sel(PA(self), k).sequence_number))))",
]
_NCID_WITNESS = [c.replace("OFF", _OFF) for c in _NCID_WITNESS]
R.contract(
    "QuicConnection._handle_new_connection_id_frame",
    requires=PC,
    # qlog plumbing (C20 territory): receive_datagram creates context.quic_logger_frames whenever a logger is configured
    assume_pre=["self._quic_logger is None or context.quic_logger_frames is not None"],
    let={"n0": "len(RQ(self))", "m0": "len(PA(self))"},
    raises={"BufferReadError": None, "QuicConnectionError": None},
    modifies=["self._peer_cid", "self._peer_cid_available", "self._peer_cid_sequence_numbers", "self._peer_retire_prior_to", "self._retire_connection_ids"],
    loops={
        0: dict(
            invariant=[
                "0 <= _i0 <= len(retire)",
                "len(RQ(self)) == n0 + _i0",
                "forall(lambda m: implies(0 <= m < n0, sel(RQ(self), m) == sel(old(RQ(self)), m)))",
                "forall(lambda m: implies(n0 <= m < n0 + _i0, sel(RQ(self), m) == sel(retire, m - n0).sequence_number), pattern=sel(RQ(self), m))",
            ],
            decreases="len(retire) - _i0",
            modifies=["self._retire_connection_ids"],
        )
    },
    on_raise={
        "BufferReadError": ["peer_same(self)"],
        "QuicConnectionError": [
            "exc_error_code == QuicErrorCode.FRAME_ENCODING_ERROR or exc_error_code == QuicErrorCode.PROTOCOL_VIOLATION or exc_error_code == QuicErrorCode.CONNECTION_ID_LIMIT_ERROR",
            "implies(exc_error_code == QuicErrorCode.FRAME_ENCODING_ERROR, (len(connection_id) == 0 or len(connection_id) > 20) and peer_same(self))",
            "implies(exc_error_code == QuicErrorCode.PROTOCOL_VIOLATION, (retire_prior_to > sequence_number and peer_same(self)) or " + NO_ID_LEFT + ")",
            "implies(exc_error_code == QuicErrorCode.CONNECTION_ID_LIMIT_ERROR, 1 + len(PA(self)) > self._local_active_connection_id_limit or len(RQ(self)) > retire_cap(self))",
            # even when the connection is about to be closed the destination ID honours retire-prior-to
            "implies(exc_error_code == QuicErrorCode.CONNECTION_ID_LIMIT_ERROR, pc_floor(self) and pc_distinct(self) and pc_seen(self))",
        ],
    },
    cuts={
        # guarded by the handler since the fix: there is an ID to switch to
        "self._consume_peer_cid()": ["len(PA(self)) > 0"],
        # the IDs to retire, element by element, in terms of the entry state (beta-reduces the insert(0, ...) once)
        "for quic_connection_id in retire:": [
            "len(retire) >= ite(change_cid, 1, 0) and change_cid == (old(self._peer_cid.sequence_number) < self._peer_retire_prior_to)",
            "implies(change_cid, sel(retire, 0) == old(self._peer_cid) and sel(retire, 0).sequence_number == old(self._peer_cid.sequence_number))",
            "forall(lambda i: implies(0 <= i < m0 and old(sel(PA(self), i).sequence_number) < self._peer_retire_prior_to, 0 <= _lc0_dst[i] and ite(change_cid, 1, 0) + _lc0_dst[i] < len(retire) and sel(retire, ite(change_cid, 1, 0) + _lc0_dst[i]).sequence_number == old(sel(PA(self), i).sequence_number)), pattern=_lc0_dst[i])",
            "forall(lambda k: implies(ite(change_cid, 1, 0) <= k < len(retire), 0 <= _lc0_src[k - ite(change_cid, 1, 0)] < m0 and sel(retire, k).sequence_number == old(sel(PA(self), _lc0_src[k - ite(change_cid, 1, 0)]).sequence_number) and sel(retire, k).sequence_number < self._peer_retire_prior_to))",
            "forall(lambda j, k: implies(ite(change_cid, 1, 0) <= j < k < len(retire), _lc0_src[j - ite(change_cid, 1, 0)] < _lc0_src[k - ite(change_cid, 1, 0)]))",
        ],
    },
    exit_cuts=_NCID_WITNESS + ["pc_floor(self)"],
    ensures=PC
    + _NCID_WITNESS
    + [
        # E_rpt
        "self._peer_retire_prior_to == max(old(self._peer_retire_prior_to), retire_prior_to)",
        # E_cap
        "len(RQ(self)) <= retire_cap(self)",
        # refusals did not apply
        "0 < len(connection_id) <= 20 and retire_prior_to <= sequence_number",
        "not " + NO_ID_LEFT,
        "rq_prefix_kept(self)",
        # E_keep (current ID): kept unless it is below retire-prior-to
        "implies(old(self._peer_cid.sequence_number) >= self._peer_retire_prior_to, self._peer_cid == old(self._peer_cid) and self._peer_cid.sequence_number == old(self._peer_cid.sequence_number) and same(self._peer_cid.cid, old(self._peer_cid.cid)))",
        # E_new: only the frame's own ID can become held, and only if its sequence number was never seen before
        "forall(lambda s: implies(held(self, s) and not old(held(self, s)), s == sequence_number and not old(SEEN(self, s))))",
        # ... and it is accepted whenever that is the case (it is the last spare, or already the current ID)
        "implies(sequence_number >= self._peer_retire_prior_to and not old(SEEN(self, sequence_number)), self._peer_cid.sequence_number == sequence_number or (len(PA(self)) > 0 and sel(PA(self), len(PA(self)) - 1).sequence_number == sequence_number))",
        "forall(lambda k: implies(0 <= k < len(PA(self)) and sel(PA(self), k).sequence_number == sequence_number and not old(SEEN(self, sequence_number)), bytes_eq(sel(PA(self), k).cid, connection_id) and bytes_eq(sel(PA(self), k).stateless_reset_token, stateless_reset_token)))",
        "implies(self._peer_cid.sequence_number == sequence_number and not old(SEEN(self, sequence_number)), bytes_eq(self._peer_cid.cid, connection_id) and bytes_eq(self._peer_cid.stateless_reset_token, stateless_reset_token))",
        # E_seen: sequence numbers once seen stay seen; only the frame's own can be added
        "forall(lambda s: implies(old(SEEN(self, s)), SEEN(self, s)))",
        "forall(lambda s: implies(SEEN(self, s) and not old(SEEN(self, s)), s == sequence_number))",
        "peer_cfg_same(self)",
    ],
    prop=["C18"],
)

# ================================================================================================ host side

R.field_types("QuicConnection", _configuration="QuicConfiguration")
R.field_types("QuicConfiguration", connection_id_length="int")

# stdlib: os.urandom(n) returns n bytes, ValueError for a negative size (outside the repository -> trusted stub)
R.contract("os.urandom", trusted=True, returns="bytes", raises={"ValueError": "a0 < 0"}, ensures=["len(result) == a0"], note="stdlib os.urandom: n random bytes")

R.spec(
    """
def HL(c):
    return c._host_cids

def hc_seq(c):
    return c._host_cid_seq >= 0 and forall(lambda j, k: implies(0 <= j < k < len(HL(c)), sel(HL(c), j).sequence_number != sel(HL(c), k).sequence_number)) and forall(lambda k: implies(0 <= k < len(HL(c)), 0 <= sel(HL(c), k).sequence_number < c._host_cid_seq))

def hc_target(c):
    return min(8, c._remote_active_connection_id_limit)

def hc_bound(c):
    return len(HL(c)) <= max(1, hc_target(c))

def host_elem_same(c, k, k0):
    return sel(HL(c), k) == sel(old(HL(c)), k0) and sel(HL(c), k).sequence_number == old(sel(HL(c), k0).sequence_number) and same(sel(HL(c), k).cid, old(sel(HL(c), k0).cid)) and sel(HL(c), k).was_sent == old(sel(HL(c), k0).was_sent)

def host_cfg_same(c):
    return c._remote_active_connection_id_limit == old(c._remote_active_connection_id_limit)
"""
)

HC = ["hc_seq(self)", "hc_bound(self)"]
# connection_id_length: QuicConnection.__init__ already called os.urandom(configuration.connection_id_length), which
# raises for a negative value, and nothing writes the field afterwards (invariant established by __init__)
_CIDLEN = "self._configuration.connection_id_length >= 0"

# "replaces retired IDs" / "never issues more simultaneously active IDs than the peer allows": the list is topped up to
# exactly min(8, peer limit) (never shrunk), the IDs already issued stay, untouched; the new ones get the next unused
# sequence numbers and are marked not-yet-sent, so the next packet announces them.
R.contract(
    "QuicConnection._replenish_connection_ids",
    requires=["hc_seq(self)"],
    assume_pre=[_CIDLEN],
    let={"h0": "len(HL(self))", "s0": "self._host_cid_seq"},
    modifies=["self._host_cids", "self._host_cid_seq"],
    loops={
        0: dict(
            invariant=[
                "h0 <= len(HL(self)) <= max(h0, hc_target(self))",
                "hc_seq(self)",
                "self._host_cid_seq == s0 + len(HL(self)) - h0",
                "forall(lambda k: implies(0 <= k < h0, host_elem_same(self, k, k)))",
                "forall(lambda k: implies(h0 <= k < len(HL(self)), sel(HL(self), k).sequence_number == s0 + k - h0 and not sel(HL(self), k).was_sent and len(sel(HL(self), k).cid) == self._configuration.connection_id_length))",
            ],
            decreases="hc_target(self) - len(HL(self))",
        )
    },
    ensures=[
        "len(HL(self)) == max(h0, hc_target(self))",
        "self._host_cid_seq == s0 + len(HL(self)) - h0",
        "forall(lambda k: implies(0 <= k < h0, host_elem_same(self, k, k)))",
        "forall(lambda k: implies(h0 <= k < len(HL(self)), sel(HL(self), k).sequence_number == s0 + k - h0 and not sel(HL(self), k).was_sent and len(sel(HL(self), k).cid) == self._configuration.connection_id_length))",
        "hc_seq(self)",
        "implies(old(hc_bound(self)), hc_bound(self))",
        "host_cfg_same(self)",
    ],
    prop=["C18"],
)

# RETIRE_CONNECTION_ID.  PROTOCOL_VIOLATION exactly when the sequence number was never issued, or names the ID the
# packet carrying the frame was addressed to (both directions; the state is untouched then).  Otherwise: the named ID
# (if still active) is removed and only that one - every other issued ID stays in _host_cids (same object, same
# bytes, same sequence number), so packets addressed to it are still accepted; the list is topped up again to
# min(8, peer limit) with fresh, not-yet-announced IDs.  g_idx (ghost) = position of the retired ID, -1 if none.
_REM = "ite(g_idx >= 0, 1, 0)"
R.contract(
    "QuicConnection._handle_retire_connection_id_frame",
    requires=HC,
    # qlog plumbing as above; connection_id_length as for _replenish_connection_ids
    assume_pre=["self._quic_logger is None or context.quic_logger_frames is not None", _CIDLEN],
    let={"h0": "len(HL(self))", "s0": "self._host_cid_seq"},
    raises={"BufferReadError": None, "QuicConnectionError": None},
    modifies=["self._host_cids", "self._host_cid_seq", "self._events"],
    ghost_at={
        "sequence_number = buf.pull_uint_var()": {"g_idx": "-1"},
        "if connection_id.cid == context.host_cid:": {"g_idx": "index"},
    },
    loops={
        0: dict(
            invariant=[
                "0 <= _i0 <= len(HL(self))",
                "same(HL(self), old(HL(self)))",
                "g_idx == -1",
                "forall(lambda k: implies(0 <= k < _i0, sel(HL(self), k).sequence_number != sequence_number))",
            ],
            decreases="len(HL(self)) - _i0",
        )
    },
    on_raise={
        "BufferReadError": ["same(HL(self), old(HL(self))) and self._host_cid_seq == s0"],
        "QuicConnectionError": [
            "exc_error_code == QuicErrorCode.PROTOCOL_VIOLATION",
            "sequence_number >= s0 or (0 <= g_idx < h0 and old(sel(HL(self), g_idx).sequence_number) == sequence_number and bytes_eq(old(sel(HL(self), g_idx).cid), context.host_cid))",
            "same(HL(self), old(HL(self))) and self._host_cid_seq == s0 and forall(lambda k: implies(0 <= k < h0, host_elem_same(self, k, k)))",
        ],
    },
    ensures=HC
    + [
        # refusals did not apply
        "sequence_number < s0",
        "implies(g_idx >= 0, 0 <= g_idx < h0 and old(sel(HL(self), g_idx).sequence_number) == sequence_number and not bytes_eq(old(sel(HL(self), g_idx).cid), context.host_cid))",
        "implies(g_idx < 0, forall(lambda k: implies(0 <= k < h0, old(sel(HL(self), k).sequence_number) != sequence_number)))",
        # every other issued ID is kept
        "forall(lambda k: implies(0 <= k < h0 and (g_idx < 0 or k < g_idx), host_elem_same(self, k, k)))",
        "forall(lambda k: implies(0 <= g_idx < k < h0, host_elem_same(self, k - 1, k)))",
        # the retired one is gone
        "forall(lambda k: implies(0 <= k < len(HL(self)), sel(HL(self), k).sequence_number != sequence_number))",
        # and replaced
        "len(HL(self)) == max(h0 - ite(g_idx >= 0, 1, 0), hc_target(self))",
        "self._host_cid_seq == s0 + len(HL(self)) - (h0 - ite(g_idx >= 0, 1, 0))",
        "forall(lambda k: implies(h0 - ite(g_idx >= 0, 1, 0) <= k < len(HL(self)), sel(HL(self), k).sequence_number == s0 + k - (h0 - ite(g_idx >= 0, 1, 0)) and not sel(HL(self), k).was_sent))",
        "host_cfg_same(self)",
    ],
    prop=["C18"],
)

# ================================================================================================ delivery callbacks ("again after loss")

# NEW_CONNECTION_ID frame acknowledged or lost: a lost announcement makes the ID pending again (it is re-announced by
# the next packet because was_sent is False); nothing else about the ID or the list changes.
R.contract(
    "QuicConnection._on_new_connection_id_delivery",
    modifies=["connection_id.was_sent"],
    ensures=[
        "implies(delivery != QuicDeliveryState.ACKED, not connection_id.was_sent)",
        "implies(delivery == QuicDeliveryState.ACKED, connection_id.was_sent == old(connection_id.was_sent))",
        "connection_id.sequence_number == old(connection_id.sequence_number) and same(connection_id.cid, old(connection_id.cid))",
        "same(HL(self), old(HL(self))) and self._host_cid_seq == old(self._host_cid_seq)",
        "forall(lambda k: implies(0 <= k < len(HL(self)), sel(HL(self), k).sequence_number == old(sel(HL(self), k).sequence_number)))",
    ],
    prop=["C18"],
    frame=True,  # OPAQUE_CALL discharge: see contracts/quic_handlers.py
)

# RETIRE_CONNECTION_ID frame acknowledged or lost: a lost retirement is queued again (once, at the end), an
# acknowledged one is not; the IDs in use are untouched.
R.contract(
    "QuicConnection._on_retire_connection_id_delivery",
    modifies=["self._retire_connection_ids"],
    ensures=[
        "implies(delivery != QuicDeliveryState.ACKED, len(RQ(self)) == old(len(RQ(self))) + 1 and sel(RQ(self), len(RQ(self)) - 1) == sequence_number)",
        "implies(delivery == QuicDeliveryState.ACKED, same(RQ(self), old(RQ(self))))",
        "rq_prefix_kept(self)",
        "peer_ids_same(self)",
        "same(self._peer_cid_sequence_numbers, old(self._peer_cid_sequence_numbers))",
        "self._peer_retire_prior_to == old(self._peer_retire_prior_to)",
        "peer_cfg_same(self)",
    ],
    prop=["C18"],
    frame=True,  # OPAQUE_CALL discharge: see contracts/quic_handlers.py
)

# ================================================================================================ writing RETIRE_CONNECTION_ID

# one RETIRE_CONNECTION_ID frame: either it is refused for lack of room (nothing registered, nothing written), or the
# frame is in the packet AND its delivery handler (which re-queues the number after a loss) is registered on the packet
R.contract(
    "QuicConnection._write_retire_connection_id_frame",
    requires=["builder._packet is not None", "0 <= sequence_number <= 4611686018427387903"],
    # '(again after loss)': the sequence number registered with the frame is the one the frame retires
    call_asserts={"QuicPacketBuilder.start_frame": ["arg_handler_args[0] == sequence_number", "arg_frame_type == 25"]},
    assume_pre=["self._quic_logger is None or builder.quic_logger_frames is not None"],
    let={"pkt": "some(builder._packet)"},
    raises={"QuicPacketBuilderStop": None},
    on_raise={"QuicPacketBuilderStop": ["len(pkt.delivery_handlers) == old(len(pkt.delivery_handlers))", "builder._buffer.g_pos == old(builder._buffer.g_pos)"]},
    modifies=["builder._buffer.g_pos", "builder._buffer.g_mem", "QuicSentPacket.is_ack_eliciting[*]", "QuicSentPacket.in_flight[*]",
              "QuicSentPacket.is_crypto_packet[*]", "QuicSentPacket.delivery_handlers[*]"],
    ensures=[
        "len(pkt.delivery_handlers) == old(len(pkt.delivery_handlers)) + 1",
        "builder._buffer.g_pos > old(builder._buffer.g_pos)",
        "pkt.is_ack_eliciting",
        "builder._packet == old(builder._packet)",
    ],
    prop=["C18"],
)

# Block contract on the RETIRE_CONNECTION_ID loop of _write_application (located by the call it makes, whatever the shape
# of the loop): "every abandoned ID is announced" - a queued sequence number leaves the queue only together with a frame
# whose delivery handler is registered; when the packet is full (QuicPacketBuilderStop) the numbers not yet written are
# all still queued, in order.
R.contract(
    "QuicConnection._write_application@retire_cids",
    region={"anchor": "calls:_write_retire_connection_id_frame", "widen": "loop"},
    params={"builder": "QuicPacketBuilder"},
    assume_pre=["builder._packet is not None", "self._quic_logger is None or builder.quic_logger_frames is not None",
                # sequence numbers in the queue are varints (they were parsed as such / are below _host/peer counters)
                "forall(lambda m: implies(0 <= m < len(RQ(self)), 0 <= sel(RQ(self), m) <= 4611686018427387903))"],
    let={"pkt": "some(builder._packet)", "n0": "len(RQ(self))", "h0": "len(some(builder._packet).delivery_handlers)"},
    raises={"QuicPacketBuilderStop": None},
    on_raise={"QuicPacketBuilderStop": [
        "len(RQ(self)) + len(pkt.delivery_handlers) == n0 + h0",
        "len(RQ(self)) <= n0",
        "forall(lambda m: implies(0 <= m < len(RQ(self)), sel(RQ(self), m) == sel(old(RQ(self)), m + n0 - len(RQ(self)))))",
    ]},
    loops={0: dict(
        invariant=[
            "len(RQ(self)) + len(some(builder._packet).delivery_handlers) == n0 + h0",
            "0 <= _i0 <= n0", "len(RQ(self)) == n0 - _i0",
            "forall(lambda m: implies(0 <= m < len(RQ(self)), sel(RQ(self), m) == sel(old(RQ(self)), m + n0 - len(RQ(self)))))",
            "builder._packet == old(builder._packet)",
        ],
        modifies=["self._retire_connection_ids", "builder._buffer.g_pos", "builder._buffer.g_mem", "QuicSentPacket.is_ack_eliciting[*]", "QuicSentPacket.in_flight[*]",
                  "QuicSentPacket.is_crypto_packet[*]", "QuicSentPacket.delivery_handlers[*]"],
    )},
    ensures=[
        # normal exit: the queue is empty and one handler was registered per number that was queued
        "len(RQ(self)) == 0",
        "len(pkt.delivery_handlers) == h0 + n0",
        "peer_ids_same(self)",
    ],
    prop=["C18"],
)


# ================================================================================================ accepting packets by destination ID
# C18 sentence 2 "keeps accepting packets addressed to any ID it issued until the peer retires it" (taken from the property):
# the destination-ID match of receive_datagram finds EVERY connection ID that is still in _host_cids (issued, and not yet
# retired by the peer - _handle_retire_connection_id_frame removes exactly the retired one), whatever its other fields say
# (round-3 seed C18-6 made the match depend on was_sent, which a lost NEW_CONNECTION_ID clears).  Block contract: the
# declaration of destination_cid_seq and the matching loop, extracted from the real function on every run; what it drops is
# the rest of receive_datagram (the packet is then dropped iff no ID matched and this end is a client or the packet is a
# Handshake packet - the statement that follows, not under contract).
R.contract(
    "QuicConnection.receive_datagram@dest_cid",
    region={"anchor": "destination_cid_seq: Optional[int] = None", "span": 2},
    params={"header": "QuicHeader"},
    locals={"destination_cid_seq": "Optional[int]"},
    loops={0: dict(
        invariant=[
            "0 <= _i0 <= len(self._host_cids)",
            "destination_cid_seq is None",
            "forall(lambda k: implies(0 <= k < _i0, not same(at(self._host_cids, k).cid, header.destination_cid)))",
        ],
        modifies=["destination_cid_seq"],
    )},
    modifies=[],
    raises={},
    ensures=[
        "forall(lambda k: implies(0 <= k < len(self._host_cids) and same(at(self._host_cids, k).cid, header.destination_cid), destination_cid_seq is not None))",
    ],
    frame=True,
    prop=["C18"],
)
