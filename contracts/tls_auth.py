# Sidecar contracts for the authentication / agreement mechanisms of src/aioquic/tls.py          property C03
# (R is injected by the loader; contracts/tls_state.py - loaded after this file, alphabetical order - holds the C11 state
# machine contracts of tls.Context, which C03 builds on.)
#
# C03: "A client reports handshake completion only after the server has proved possession of the private key of a
# certificate that validates for the requested name (or of a resumption secret the client offered), and changing any
# byte of any handshake message in either direction prevents completion on the endpoint that received it.  Whenever
# both endpoints complete, they hold identical traffic secrets and report the same QUIC version, cipher suite, ALPN
# protocol and resumption status, for every combination of supported configuration options; when the configurations
# share no common option, neither endpoint ever reports completion."
#
# What contracts can reach (everything below), and what they cannot (engine/props.py PROPS["C03"].not_decided):
#   N   negotiate(): first element of `supported` that was offered, the given alert exactly when there is none
#       (both directions); its uses in the server's ClientHello handler (cipher suite, compression, signature algorithm,
#       TLS version: BLOCK contract @negotiate; ALPN: BLOCK contract @alpn - a server with an ALPN list fails the
#       handshake unless a common protocol exists, INCLUDING when the ClientHello has no ALPN extension).
#   V   verify_certificate(): which certificates the X509 verifier was told to TRUST (ghost set of the store) and which
#       it got as untrusted intermediates; validity dates and name check performed on the leaf; every failure is an Alert.
#   F   Finished: completion requires extensional equality (length and content) of the received verify_data with
#       fin_mac(transcript before that Finished, the peer's handshake traffic secret).
#   T   transcript: each handler feeds exactly input_buf.data, once, and the MAC / signature check sees the transcript
#       before the message that carries it.
# The MAC, the hash and the signature are uninterpreted functions: nothing here says they are unforgeable.

# ------------------------------------------------------------------------------------------------ N  negotiate
R.spec(
    """
def offered_has(offered, x):
    return offered is not None and exists(lambda j: 0 <= j < len(some(offered)) and sel(some(offered), j) == x)

def has_common(supported, offered):
    '''the two lists share an element (RFC 8446 4.1.1: the server selects from what the client offered)'''
    return exists(lambda k: 0 <= k < len(some(supported)) and offered_has(offered, sel(some(supported), k)))

def is_first_common(supported, offered, x):
    '''x is the element of `supported` with the least index that was offered (the receiver's preference order decides)'''
    return exists(lambda k: 0 <= k < len(some(supported)) and sel(some(supported), k) == x and offered_has(offered, x)
                  and forall(lambda i: implies(0 <= i < k, not offered_has(offered, sel(some(supported), i)))))
"""
)

# the loop invariant of negotiate (shared by the standalone check and by every inlined call site): nothing before the
# current position was offered
NEG_INV = [
    # (some(): at one call site `supported` is an Optional attribute already tested against None; None itself is a TypeError)
    "0 <= _i0 <= len(some(supported))",
    "offered is not None",
    "forall(lambda i: implies(0 <= i < _i0, not offered_has(offered, sel(some(supported), i))))",
]
_NEG_POST = [
    # the result is THE first common element, whenever one exists ...
    "implies(has_common(supported, offered), result is not None and offered_has(offered, some(result)))",
    "forall(lambda k: implies(0 <= k < len(supported) and offered_has(offered, sel(supported, k)) and forall(lambda i: implies(0 <= i < k, not offered_has(offered, sel(supported, i)))), result is not None and some(result) == sel(supported, k)))",
    # ... and None (only possible without an alert) when there is none
    "implies(not has_common(supported, offered), result is None)",
]
for _v, _t in (("spec", "int"), ("str", "str")):
    R.contract(
        "negotiate#" + _v,
        params={"supported": "list[%s]" % _t, "offered": "Optional[list[%s]]" % _t, "exc": "Optional[Alert]"},
        returns="Optional[%s]" % _t,
        # "when the configurations share no common option, neither endpoint ever reports completion": the alert is raised
        # exactly when nothing is common (an absent offer counts as an empty one)
        raises={"Alert": "exc is not None and not has_common(supported, offered)"},
        modifies=[],
        frame=True,
        loops={0: dict(invariant=NEG_INV)},
        ensures=_NEG_POST,
        prop=["C03"],
    )
# call sites execute the real body (the alert class raised is that of the object passed in), with the same loop invariant
R.contract("negotiate", inline=True, loops={0: dict(invariant=NEG_INV)})

# ---- uses in the server's ClientHello handler (228 lines, its whole-function contract is only ASSUMED by C11):
# BLOCK contracts on the negotiation statements, extracted from the real function on every run.
R.field_types(
    "ClientHello",
    random="bytes", legacy_session_id="bytes", cipher_suites="list[int]", legacy_compression_methods="list[int]",
    alpn_protocols="Optional[list[str]]", early_data="bool", psk_key_exchange_modes="Optional[list[int]]",
    signature_algorithms="Optional[list[int]]", supported_groups="Optional[list[int]]", supported_versions="Optional[list[int]]",
    server_name="Optional[str]", other_extensions="list[tuple[int,bytes]]",
)

# ALPN (RFC 7301 3.2: "In the event that the server supports no protocols that the client advertises, then the server
# SHALL respond with a fatal no_application_protocol alert"; property: no common option => no completion).  Semantic
# anchor: the statement (with its enclosing `if`) that writes alpn_negotiated.
R.contract(
    "Context._server_handle_hello@alpn",
    region={"anchor": "writes:alpn_negotiated"},
    params={"peer_hello": "ClientHello"},
    use_invariant=False,
    frame=True,
    raises={"AlertHandshakeFailure": "self._alpn_protocols is not None and not has_common(some(self._alpn_protocols), peer_hello.alpn_protocols)"},
    modifies=["self.alpn_negotiated"],
    ensures=[
        # a server with an ALPN list continues only with a protocol from the client's offer: its own first choice among them
        "implies(self._alpn_protocols is not None, self.alpn_negotiated is not None and offered_has(peer_hello.alpn_protocols, some(self.alpn_negotiated)))",
        "implies(self._alpn_protocols is not None, forall(lambda k: implies(0 <= k < len(some(self._alpn_protocols)) and offered_has(peer_hello.alpn_protocols, sel(some(self._alpn_protocols), k)) and forall(lambda i: implies(0 <= i < k, not offered_has(peer_hello.alpn_protocols, sel(some(self._alpn_protocols), i)))), some(self.alpn_negotiated) == sel(some(self._alpn_protocols), k))))",
        # a server without an ALPN list reports none
        "implies(self._alpn_protocols is None, self.alpn_negotiated == old(self.alpn_negotiated))",
        "self.state == old(self.state)",
    ],
    on_raise={"AlertHandshakeFailure": ["self.state == old(self.state)", "self.alpn_negotiated == old(self.alpn_negotiated)"]},
    prop=["C03"],
)

# cipher suite, legacy compression, PSK mode, signature algorithm, TLS version (RFC 8446 4.1.1 / 4.2.1 / 4.2.3 / 4.2.9:
# the server selects from the client's offer or aborts with handshake_failure / protocol_version; only the PSK key
# exchange mode is optional).  `first_of(sup, off, x)`: x is the receiver's first choice among the offered ones.
R.spec(
    """
def first_of(supported, offered, x):
    return (offered_has(offered, x)
            and forall(lambda k: implies(0 <= k < len(some(supported)) and offered_has(offered, sel(some(supported), k))
                                         and forall(lambda i: implies(0 <= i < k, not offered_has(offered, sel(some(supported), i)))),
                                         x == sel(some(supported), k))))
"""
)
_SIGS = "key_sig_algs(self.certificate_private_key)"
_HC3 = "has_common(self._cipher_suites, peer_hello.cipher_suites) and has_common(self._legacy_compression_methods, peer_hello.legacy_compression_methods) and has_common(%s, peer_hello.signature_algorithms)" % _SIGS
R.contract(
    "Context._server_handle_hello@negotiate",
    region={"anchor": "cipher_suite = negotiate(self._cipher_suites, peer_hello.cipher_suites, AlertHandshakeFailure('No supported cipher suite'))", "span": 5},
    params={"peer_hello": "ClientHello"},
    use_invariant=False,
    frame=True,
    raises={
        "AlertHandshakeFailure": "not (%s)" % _HC3,
        "AlertProtocolVersion": "(%s) and not has_common(self._supported_versions, peer_hello.supported_versions)" % _HC3,
    },
    modifies=[],
    ensures=[
        "first_of(self._cipher_suites, peer_hello.cipher_suites, cipher_suite)",
        "first_of(self._legacy_compression_methods, peer_hello.legacy_compression_methods, compression_method)",
        "first_of(%s, peer_hello.signature_algorithms, signature_algorithm)" % _SIGS,
        "first_of(self._supported_versions, peer_hello.supported_versions, supported_version)",
        "implies(has_common(self._psk_key_exchange_modes, peer_hello.psk_key_exchange_modes), psk_key_exchange_mode is not None and first_of(self._psk_key_exchange_modes, peer_hello.psk_key_exchange_modes, some(psk_key_exchange_mode)))",
        "implies(not has_common(self._psk_key_exchange_modes, peer_hello.psk_key_exchange_modes), psk_key_exchange_mode is None)",
    ],
    prop=["C03"],
)

# client side (RFC 8446 4.1.3 / 4.2.1: "A client which receives a cipher suite that was not offered MUST abort the
# handshake with an illegal_parameter alert"; same for the version and the compression method): the ServerHello is
# accepted only when every selected value was offered by this client.
R.spec(
    """
def int_in(xs, x):
    return exists(lambda j: 0 <= j < len(xs) and sel(xs, j) == x)
"""
)
_CH_OK = "int_in(self._cipher_suites, peer_hello.cipher_suite)"
R.contract(
    "Context._client_handle_hello@params",
    region={"anchor": "cipher_suite = negotiate(self._cipher_suites, [peer_hello.cipher_suite], AlertHandshakeFailure('Unsupported cipher suite'))", "span": 3},
    params={"peer_hello": "ServerHello"},
    use_invariant=False,
    frame=True,
    raises={
        "AlertHandshakeFailure": "not %s" % _CH_OK,
        "AlertIllegalParameter": "%s and not (int_in(self._legacy_compression_methods, peer_hello.compression_method) and peer_hello.supported_version is not None and int_in(self._supported_versions, some(peer_hello.supported_version)))" % _CH_OK,
    },
    modifies=[],
    ensures=["cipher_suite == peer_hello.cipher_suite"],
    prop=["C03"],
)

# ------------------------------------------------------------------------------------------------ V  verify_certificate
# Third-party API modelled as TRUSTED stubs (pyOpenSSL 26.x OpenSSL.crypto, service_identity 26.x, ipaddress, certifi):
#   * an OpenSSL.crypto.X509 object IS (denotes) the cryptography certificate it was converted from
#     (crypto.X509.from_cryptography is the identity of the model);
#   * an X509Store has a ghost TRUSTED SET g_trusted (certificates added with add_cert: the trust anchors) and a ghost
#     token g_loc recording the load_locations() calls (CA file / directory / certifi bundle);
#   * an X509StoreContext remembers store, leaf and the ghost UNTRUSTED SET (the candidate intermediates);
#   * verify_certificate() raises X509StoreContextError exactly when the uninterpreted predicate
#     chain_ok(trusted set, location token, leaf, untrusted set) is false - what a valid chain IS (signatures, path
#     building, expiry of intermediates) is OpenSSL's business; which certificates play which role is ours.
R.module_names.update({"ipaddress", "service_identity", "crypto", "certifi"})
R.extern_module(
    "openssl_model.py",
    """
class X509Store:
    def add_cert(self, cert: X509Certificate) -> None: ...
    def load_locations(self, cafile, capath=None) -> None: ...

class X509StoreContext:
    def verify_certificate(self) -> None: ...
""",
)
R.field_types("X509Certificate", not_valid_before_utc="float", not_valid_after_utc="float")  # datetimes: points of one time line
R.field_types("X509Store", g_trusted="set[X509Certificate]", g_loc="int")
R.field_types("X509StoreContext", g_store="X509Store", g_leaf="X509Certificate", g_untrusted="set[X509Certificate]")
R.ufunc("chain_ok", ["set[X509Certificate]", "int", "X509Certificate", "set[X509Certificate]"], "bool")
R.ufunc("loc_add", ["int", "Optional[str]", "Optional[str]"], "int")  # store locations after one more load_locations(file, dir)
R.ufunc("locs_ok", ["Optional[str]", "Optional[str]"], "bool")  # the CA file / directory can be loaded
R.ufunc("certifi_path", ["int"], "str")
R.ufunc("wall_clock", ["int"], "float")
R.ufunc("ip_literal", ["str"], "bool")  # the string parses as an IPv4 / IPv6 address
R.ufunc("id_invalid", ["X509Certificate"], "bool")  # service_identity cannot use the certificate at all (CertificateError)
R.ufunc("id_match", ["X509Certificate", "str", "bool"], "bool")  # subjectAltName matches the DNS name / IP address
R.ufunc("pem_valid", ["bytes"], "bool")
R.ufunc("pem_certs", ["bytes"], "list[X509Certificate]")
R.ufunc("x509_error_string", ["int"], "str")
R.ufunc("ossl_refuses", ["X509Certificate"], "bool")  # OpenSSL cannot parse the DER of a certificate that `cryptography` parsed

_X = dict(trusted=True)
R.contract("utcnow", returns="float", ensures=["result == wall_clock(0)"], note="tls.py one-liner around datetime.now(timezone.utc): the wall clock", **_X)
R.contract("ipaddress.ip_address", params={"a0": "str"}, returns="Any", raises={"ValueError": "not ip_literal(a0)"}, note="stdlib: ValueError unless the text is an IP address", **_X)
_SI = "service_identity.cryptography."
# (C05) service_identity reads certificate.extensions, which `cryptography` parses LAZILY: for a certificate that
# load_der_x509_certificate accepted the access can still raise ValueError (malformed extension value), x509.DuplicateExtension
# or x509.UnsupportedGeneralNameType (both direct subclasses of Exception) - observed natively with a self-made certificate
# whose subjectAltName value is garbage (tools/repro/c05_tls_hostile_certificate.py san_garbage).  PEER-controlled.
# ext_bad(cert): the certificate's extensions do not parse (an uninterpreted property of the certificate, like id_invalid);
# modelled outcome: ValueError (the one observed); the repair also catches the two x509 exception classes.
R.ufunc("ext_bad", ["X509Certificate"], "bool")
R.contract(_SI + "verify_certificate_hostname", params={"a0": "X509Certificate", "a1": "str"},
           raises={"ValueError": "ext_bad(a0)", "CertificateError": "not ext_bad(a0) and id_invalid(a0)", "VerificationError": "not ext_bad(a0) and not id_invalid(a0) and not id_match(a0, a1, False)"},
           note="service_identity: raises VerificationError on mismatch, a CertificateError subclass for unusable certificates; cryptography's lazy extension parser may raise", **_X)
R.contract(_SI + "verify_certificate_ip_address", params={"a0": "X509Certificate", "a1": "str"},
           raises={"ValueError": "ext_bad(a0)", "CertificateError": "not ext_bad(a0) and id_invalid(a0)", "VerificationError": "not ext_bad(a0) and not id_invalid(a0) and not id_match(a0, a1, True)"},
           note="service_identity: same for iPAddress entries", **_X)
R.contract(_SI + "extract_patterns", params={"a0": "X509Certificate"}, returns="list[Any]", note="service_identity: the certificate's ID patterns (only used for the alert text; reached only after verify_certificate_* already read the extensions successfully)", **_X)
R.contract("str.join", params={"a0": "str", "a1": "list[str]"}, returns="str", note="builtin", **_X)
R.contract("certifi.where", returns="str", ensures=["result == certifi_path(0)"], note="certifi: path of the bundled CA file", **_X)
R.contract("crypto.X509Store", returns="X509Store", allocates=True,
           ensures=["forall(lambda c: not (c in result.g_trusted), types={'c': 'X509Certificate'})", "result.g_loc == 0"],
           note="pyOpenSSL: a new, EMPTY store", **_X)
R.contract("crypto.X509.from_cryptography", params={"a0": "X509Certificate"}, returns="X509Certificate", ensures=["result == a0"],
           # (C05) the conversion re-parses the DER with OpenSSL, which refuses some certificates that `cryptography` accepted
           # (e.g. a non-universal string tag in a name): OpenSSL.crypto.Error - observed natively for leaf and chain
           # certificates (tools/repro/c05_tls_hostile_certificate.py chain_openssl).  PEER-controlled.
           raises={"Error": "ossl_refuses(a0)"},
           note="pyOpenSSL conversion: the model identifies the OpenSSL X509 object with the certificate it denotes; OpenSSL.crypto.Error when OpenSSL cannot parse it", **_X)
R.contract("X509Store.add_cert", params={"cert": "X509Certificate"}, modifies=["self.g_trusted"],
           ensures=["forall(lambda c: (c in self.g_trusted) == ((c in old(self.g_trusted)) or c == cert), types={'c': 'X509Certificate'})"],
           note="pyOpenSSL: 'Adds a trusted certificate to this store'", **_X)
R.contract("X509Store.load_locations", params={"cafile": "Optional[str]", "capath": "Optional[str]"}, modifies=["self.g_loc"],
           raises={"Error": "not locs_ok(cafile, capath)"},
           ensures=["self.g_loc == loc_add(old(self.g_loc), cafile, capath)"],
           note="pyOpenSSL: trusted certificates from a CA file and/or directory; OpenSSL.crypto.Error when they cannot be loaded", **_X)
R.contract("crypto.X509StoreContext", params={"a0": "X509Store", "a1": "X509Certificate", "a2": "list[X509Certificate]"}, returns="X509StoreContext", allocates=True, stub_defaults={"a2": "[]"},
           ensures=["result.g_store == a0", "result.g_leaf == a1",
                    "forall(lambda c: (c in result.g_untrusted) == exists(lambda i: 0 <= i < len(a2) and sel(a2, i) == c), types={'c': 'X509Certificate'})"],
           note="pyOpenSSL X509StoreContext(store, certificate, chain): 'chain: untrusted certificates that may be used for building the chain'", **_X)
R.contract("X509StoreContext.verify_certificate",
           raises={"X509StoreContextError": "not chain_ok(self.g_store.g_trusted, self.g_store.g_loc, self.g_leaf, self.g_untrusted)"},
           raise_attrs={"X509StoreContextError": {"args0": "x509_error_string(0)"}},
           note="pyOpenSSL: X509_verify_cert over the store as it is NOW, the leaf and the untrusted candidates; X509StoreContextError(message, errors, certificate) on failure", **_X)
R.contract("load_pem_x509_certificates", params={"data": "bytes"}, returns="list[X509Certificate]",
           raises={"ValueError": "not pem_valid(data)"}, ensures=["len(result) == len(pem_certs(data))", "forall(lambda i: implies(0 <= i < len(result), sel(result, i) == sel(pem_certs(data), i)))"],
           trusted=True, note="tls.py, 6 lines: bytes.split on the PEM end marker + cryptography's PEM parser per chunk (string splitting is outside the engine's subset): the certificates pem_certs(data) of the CONFIGURED CA data, ValueError when a chunk does not parse")

R.spec(
    """
def vc_expired(certificate):
    '''RFC 5280 4.1.2.5 validity period, closed interval'''
    return wall_clock(0) < some(certificate).not_valid_before_utc or wall_clock(0) > some(certificate).not_valid_after_utc

def vc_name_bad(certificate, server_name):
    '''RFC 6125 / RFC 9110 4.3.4 reference identity check, only when a name was requested'''
    return server_name is not None and (ext_bad(some(certificate)) or id_invalid(some(certificate)) or not id_match(some(certificate), some(server_name), ip_literal(some(server_name))))

def any_refused(xs):
    return exists(lambda k: 0 <= k < len(xs) and ossl_refuses(sel(xs, k)))

def vc_peer_refused(certificate, chain):
    # (C05) OpenSSL cannot parse the leaf or one of the extra certificates the PEER supplied: refused like a failed verification
    return ossl_refuses(some(certificate)) or any_refused(chain)

def vc_loc(cadata, cafile, capath):
    '''location token the store must have been loaded with: the certifi bundle iff nothing is configured, the configured
    file / directory iff one is given'''
    return ite(cadata is None and cafile is None and capath is None, loc_add(0, certifi_path(0), None),
               ite(cafile is not None or capath is not None, loc_add(0, cafile, capath), 0))

def vc_config_bad(cadata, cafile, capath):
    '''the LOCAL configuration cannot be loaded (not influenced by the peer)'''
    return ((cadata is not None and (not pem_valid(some(cadata)) or any_refused(pem_certs(some(cadata)))))
            or (cadata is None and cafile is None and capath is None and not locs_ok(certifi_path(0), None))
            or ((cafile is not None or capath is not None) and not locs_ok(cafile, capath)))

def vc_chain_ok(certificate, chain, cadata, cafile, capath):
    '''THE trust decision: anchors = exactly the certificates of the configured CA data (+ the configured locations /
    certifi defaults); everything the PEER supplied besides the leaf is an untrusted candidate intermediate'''
    return chain_ok(set_of(pem_certs(some(cadata)), cadata is not None), vc_loc(cadata, cafile, capath), some(certificate), set_of(chain))
"""
)
_VC_PRE = "certificate is not None and not vc_expired(certificate)"
R.contract(
    "verify_certificate",
    params={"certificate": "Optional[X509Certificate]", "chain": "list[X509Certificate]", "server_name": "Optional[str]", "cadata": "Optional[bytes]", "cafile": "Optional[str]", "capath": "Optional[str]"},
    frame=True,
    modifies=[],
    raises={
        # the callers pass Context._peer_certificate (set by the Certificate message that precedes CertificateVerify)
        "AttributeError": "certificate is None",
        "AlertCertificateExpired": "certificate is not None and vc_expired(certificate)",
        # (C05) ... including a certificate whose extensions do not parse (name check) or that OpenSSL cannot parse (leaf /
        # peer-supplied chain).  On the unchanged tree these two causes surface as ValueError / OpenSSL.crypto.Error instead:
        # the clauses `raises.ValueError.if` / `raises.Error.if` below are REFUTED there (known finding, natively reproduced:
        # tools/repro/c05_tls_hostile_certificate.py; repair tools/fixes/c05_tls_nonalert2.patch)
        "AlertBadCertificate": "%s and (vc_name_bad(certificate, server_name) or (not vc_config_bad(cadata, cafile, capath) and (vc_peer_refused(certificate, chain) or not vc_chain_ok(certificate, chain, cadata, cafile, capath))))" % _VC_PRE,
        # local configuration errors (never caused by the peer)
        "ValueError": "%s and not vc_name_bad(certificate, server_name) and cadata is not None and not pem_valid(some(cadata))" % _VC_PRE,
        "Error": "%s and not vc_name_bad(certificate, server_name) and not (cadata is not None and not pem_valid(some(cadata))) and vc_config_bad(cadata, cafile, capath)" % _VC_PRE,
    },
    loops={0: dict(
        invariant=[
            "0 <= _i0 <= len(_seq0)",
            "forall(lambda c: (c in store.g_trusted) == exists(lambda i: 0 <= i < _i0 and sel(_seq0, i) == c), types={'c': 'X509Certificate'})",
            "store.g_loc == old_loc",
            "forall(lambda i: implies(0 <= i < _i0, not ossl_refuses(sel(_seq0, i))))",
        ],
        modifies=["store.g_trusted"],
    ),
        # any other loop (there is none in the function as it stands): no knowledge survives it
        "default": dict(invariant=[], modifies=["X509Store.g_trusted[*]", "X509Store.g_loc[*]"])},
    ghost_at={"if cadata is not None:": {"old_loc": "store.g_loc"}},
    comps={0: ["_y == cert", "not ossl_refuses(cert)"]},
    # proof steps (assert-then-assume) right before the verifier runs: the store's trusted set / location token and the
    # context's untrusted set ARE the sets of the specification (array extensionality, one small obligation each), so the
    # verdict clauses below follow by congruence of chain_ok
    cuts={"store_ctx.verify_certificate()": [
        "store_ctx.g_store == store and store_ctx.g_leaf == some(certificate)",
        "store.g_trusted == set_of(pem_certs(some(cadata)), cadata is not None)",
        "store.g_loc == vc_loc(cadata, cafile, capath)",
        "store_ctx.g_untrusted == set_of(chain)",
    ]},
    # returns normally only for a certificate that is within its validity period, matches the requested name and chains
    # to a CONFIGURED anchor with the peer's extra certificates as untrusted intermediates
    ensures=[
        "certificate is not None and not vc_expired(certificate)",
        "not vc_name_bad(certificate, server_name)",
        "vc_chain_ok(certificate, chain, cadata, cafile, capath)",
    ],
    prop=["C03", "C05"],
)

# ------------------------------------------------------------------------------------------------ QUIC transport parameters
# RFC 9000 7.3 (authenticating connection IDs): "An endpoint MUST treat the absence of the initial_source_connection_id
# transport parameter from either endpoint or the absence of the original_destination_connection_id transport parameter
# from the server as a connection error of type TRANSPORT_PARAMETER_ERROR.  An endpoint MUST treat the following as a
# connection error of type TRANSPORT_PARAMETER_ERROR or PROTOCOL_VIOLATION: absence of the retry_source_connection_id
# from the server after receiving a Retry packet, presence of [it] when no Retry packet was received, a mismatch between
# values received from a peer in these transport parameters and the value sent in the corresponding Destination or Source
# Connection ID fields of Initial packets."  The parameters travel inside the TLS transcript, so this check is what binds
# the handshake to the connection IDs seen on the wire.  BLOCK contracts on QuicConnection._parse_transport_parameters
# (200 lines: getattr loop, qlog - not under contract as a whole).
R.field_types("QuicTransportParameters", original_destination_connection_id="Optional[bytes]", initial_source_connection_id="Optional[bytes]",
              retry_source_connection_id="Optional[bytes]", version_information="Optional[QuicVersionInformation]")
R.field_types("QuicVersionInformation", chosen_version="int", available_versions="list[int]")
R.field_types("QuicConnection", _remote_initial_source_connection_id="Optional[bytes]", _original_destination_connection_id="bytes",
              _retry_source_connection_id="Optional[bytes]", _crypto_packet_version="Optional[int]", _is_client="bool")
_TP = "quic_transport_parameters"
_CID_BAD = ("{tp}.initial_source_connection_id != self._remote_initial_source_connection_id"
            " or (self._is_client and ({tp}.original_destination_connection_id != self._original_destination_connection_id"
            " or {tp}.retry_source_connection_id != self._retry_source_connection_id))").format(tp=_TP)
R.contract(
    "QuicConnection._parse_transport_parameters@cid_auth",
    region={"anchor": "if quic_transport_parameters.initial_source_connection_id != self._remote_initial_source_connection_id:", "span": 3},
    params={_TP: "QuicTransportParameters"},
    use_invariant=False,
    frame=True,
    modifies=[],
    # Optional[bytes] comparison: equal iff both absent or both present with the same bytes - so a missing parameter, an
    # unexpected retry_source_connection_id and a wrong value are all refused; a conforming peer is never accused
    raises={"QuicConnectionError": _CID_BAD},
    raise_attrs={"QuicConnectionError": {"error_code": "QuicErrorCode.TRANSPORT_PARAMETER_ERROR"}},
    prop=["C03"],
)
# RFC 9368 4 (version_information): a server treats chosen_version outside available_versions as a parsing failure;
# both sides require chosen_version == the version of the packets that carried the handshake (VERSION_NEGOTIATION_ERROR)
_VI = "some(%s.version_information)" % _TP
_VI_PARSE = "%s.version_information is not None and not self._is_client and not int_in(%s.available_versions, %s.chosen_version)" % (_TP, _VI, _VI)
R.contract(
    "QuicConnection._parse_transport_parameters@version_info",
    region={"anchor": "if quic_transport_parameters.version_information is not None:"},
    params={_TP: "QuicTransportParameters"},
    use_invariant=False,
    frame=True,
    modifies=[],
    raises={"QuicConnectionError": "%s.version_information is not None and ((not self._is_client and not int_in(%s.available_versions, %s.chosen_version)) or self._crypto_packet_version is None or %s.chosen_version != some(self._crypto_packet_version))" % (_TP, _VI, _VI, _VI)},
    on_raise={"QuicConnectionError": ["exc_error_code == (QuicErrorCode.TRANSPORT_PARAMETER_ERROR if %s else QuicErrorCode.VERSION_NEGOTIATION_ERROR)" % _VI_PARSE]},
    prop=["C03"],
)

# ------------------------------------------------------------------------------------------------ SEPARATE LIST: expected to be REFUTED
# NOT part of PROPS["C03"].  RFC 7301 3.1 / RFC 8446 4.2: "the protocol the server selects MUST be one the client offered".
# The client's EncryptedExtensions handler stores whatever the message carries: the clause below is REFUTED on the unchanged
# tree (variant contract: `python3-vt -m engine.pyvc.cli "tls.py::Context._client_handle_encrypted_extensions#alpn_offered"`),
# reproduced natively with a server that answers an unoffered protocol (tools/repro/c03_client_accepts_unoffered_alpn.py:
# client reports 'evil', server 'h3').  Two UNMODIFIED endpoints cannot get there (the server selects from the offer:
# @alpn above), so the property as stated - agreement between two aioquic endpoints - is not violated by it.
R.contract(
    "Context._client_handle_encrypted_extensions#alpn_offered",
    use_invariant=False,
    requires=["self.state == State.CLIENT_EXPECT_ENCRYPTED_EXTENSIONS", "self.key_schedule is not None"],
    raises={"CallbackError": None, "Exception": None},
    modifies=["self.alpn_negotiated", "self.early_data_accepted", "self.received_extensions", "self._enc_key", "self._dec_key", "self.g_key_log", "self.state", "input_buf.g_pos", "self.key_schedule.g_hash"],
    ensures=["self.alpn_negotiated is None or (self._alpn_protocols is not None and offered_has(self._alpn_protocols, some(self.alpn_negotiated)))"],
)


# ------------------------------------------------------------------------------------------------ PSK acceptance only after the binder (C03, C11)
# _server_handle_hello as a whole is not under contract (228 lines); this placement obligation covers the part of C03 "both
# sides agree on whether the session was resumed" / C11 "keys are released only after the check that authenticates them"
# that lives in it: the server records a resumed session, and accepts early data (0-RTT key release), only on paths on
# which the PSK binder comparison `binder != expected_binder` was evaluated and did not raise (engine/dominance.py).
R.dominance(
    "_server_handle_hello.psk_after_binder",
    function="tls.py::Context._server_handle_hello",
    after="passes:binder != expected_binder",
    sites=["writes:_session_resumed", "writes:early_data_accepted"],
    expect={"writes:_session_resumed": 1, "writes:early_data_accepted": 1},
    prop=["C03", "C11"],
)
