# Sidecar contracts for the Python wire codecs (property C17): tls.py block / list / opaque helpers, packet.py header,
# Retry, Version Negotiation, ACK frame, transport parameter codecs.           (R is injected by the loader)
#
# Every postcondition is written from the RFC text as a specification function over the byte array of the Buffer model
# (contracts/buffer_model.py: g_mem / g_pos / g_cap) - the "independent encoder" of the property statement is such a
# spec function, not a second program.  Encoders: "the bytes written ARE spec(value) and nothing else changes";
# decoders: "the value returned IS the spec decoding of the bytes at the position, the position advances by exactly the
# encoded length"; totality: on arbitrary bytes only the documented parse errors escape (the engine turns every
# implicit IndexError / KeyError / TypeError / AssertionError into an obligation `no-escape`).

# ------------------------------------------------------------------------------------------------ stdlib stubs
# int.from_bytes(b, byteorder="big") / int.to_bytes(n, byteorder="big"): unsigned big-endian (Python documentation).
# Stated for the lengths the codecs use (<= 4 bytes); longer inputs only get `result >= 0`.
R.module_names.add("int")
R.spec(
    """
def be3(m, p):
    return (at(m, p) * 256 + at(m, p + 1)) * 256 + at(m, p + 2)

def be_n(m, p, n):
    return ite(n == 0, 0, ite(n == 1, be1(m, p), ite(n == 2, be2(m, p), ite(n == 3, be3(m, p), be4(m, p)))))

def pow256(n):
    return ite(n == 0, 1, ite(n == 1, 256, ite(n == 2, 65536, ite(n == 3, 16777216, 4294967296))))
"""
)
R.contract(
    "int.from_bytes",
    returns="int",
    ensures=["result >= 0", "implies(len(a0) <= 4, result == be_n(a0, 0, len(a0)))"],
    trusted=True,
    note="stdlib int.from_bytes(bytes, byteorder='big'): unsigned big-endian value (exact for <= 4 bytes)",
)
R.contract(
    "int.to_bytes",
    returns="bytes",
    requires=["0 <= a1 <= 4"],
    raises={"OverflowError": "a0 < 0 or a0 >= pow256(a1)"},
    ensures=["len(result) == a1", "be_n(result, 0, a1) == a0"],
    trusted=True,
    note="stdlib int.to_bytes(length, byteorder='big'): the unique big-endian string of that length, OverflowError when it does not fit",
)

# ------------------------------------------------------------------------------------------------ tls.py blocks
# RFC 8446 section 3.4 (vectors): a variable-length vector is a length prefix of `capacity` bytes (big-endian, the
# byte length of the body) followed by exactly that many bytes.  tls.py uses capacity 1, 2 and 3.
#
# pull_block / push_block are generator context managers: the engine inlines them (contextlib semantics) into every
# `with`, so their obligations appear in the functions below.  The clause that serves "never reading past the
# declared length of an enclosing field" is the position postcondition  g_pos == start + capacity + declared length
# of pull_opaque / pull_list: it holds on EVERY normal return, whatever the item parser did.
R.spec(
    """
def vec_len(m, p, capacity):
    return be_n(m, p, capacity)

def mem_eq_outside(b, lo, hi):
    return forall(lambda k: implies(0 <= k < b.g_cap and not (lo <= k < hi), elem(b.g_mem, k) == elem(old(b.g_mem), k)))
"""
)
_CAP = ["capacity == 1 or capacity == 2 or capacity == 3"]

R.contract(
    "pull_opaque",
    specialize={"capacity": [1, 2, 3]},
    requires=_CAP,
    returns="bytes",
    let={"n_": "vec_len(buf.g_mem, buf.g_pos, capacity)"},
    # truncated exactly when the prefix or the declared body does not fit; a well-formed vector is never refused
    raises={"BufferReadError": "buf.g_pos + capacity > buf.g_cap or buf.g_pos + capacity + n_ > buf.g_cap"},
    modifies=["buf.g_pos"],
    ensures=[
        "len(result) == n_",
        "bytes_eq(result, buf.g_mem[old(buf.g_pos) + capacity : old(buf.g_pos) + capacity + n_])",
        "buf.g_pos == old(buf.g_pos) + capacity + n_",
        "buf_mem_same(buf)",
    ],
    on_raise={"BufferReadError": ["buf_mem_same(buf)"]},
    prop=["C17"],
)

R.contract(
    "push_opaque",
    specialize={"capacity": [1, 2, 3]},
    params={"value": "bytes"},
    # domain of the vector type: the length must be representable in the prefix
    requires=_CAP + ["len(value) < pow256(capacity)"],
    # aioquic reports "no room for the prefix" through Buffer.seek, i.e. as BufferReadError (both are ValueError)
    raises={
        "BufferReadError": "buf.g_pos + capacity > buf.g_cap",
        "BufferWriteError": "buf.g_pos + capacity <= buf.g_cap and buf.g_pos + capacity + len(value) > buf.g_cap",
    },
    modifies=["buf.g_pos", "buf.g_mem"],
    ensures=[
        "buf.g_pos == old(buf.g_pos) + capacity + len(value)",
        "buf.g_cap == old(buf.g_cap)",
        "vec_len(buf.g_mem, old(buf.g_pos), capacity) == len(value)",
        "forall(lambda k: implies(0 <= k < len(value), elem(buf.g_mem, old(buf.g_pos) + capacity + k) == elem(value, k)))",
        "mem_eq_outside(buf, old(buf.g_pos), buf.g_pos)",
    ],
    prop=["C17"],
)

# pull_list: `func` is the item parser, an arbitrary reader of the same buffer (it moves the read position and may
# raise a parse error or SkipItem); whatever it does, a normal return of pull_list has consumed exactly the declared
# length - an item that runs past the end of the list is refused (AlertDecodeError), never silently accepted.
R.contract(
    "pull_list.func",
    callback=True,
    trusted=True,
    returns="Any",
    raises={"SkipItem": None, "BufferReadError": None, "ValueError": None, "Alert": None},
    modifies=["buf.g_pos"],
    note="item parser passed to pull_list: external code here; reads the buffer (moves g_pos only), may raise SkipItem or a documented parse error",
)
R.contract(
    "pull_list",
    specialize={"capacity": [1, 2, 3]},
    requires=_CAP,
    returns="list[Any]",
    locals={"items": "list[Any]"},
    let={"n_": "vec_len(buf.g_mem, buf.g_pos, capacity)"},
    raises={"BufferReadError": None, "ValueError": None, "Alert": None},
    expect_outcomes=["return", "AlertDecodeError"],  # a well-formed list must be able to come back; an overrunning item must be refusable
    modifies=["buf.g_pos"],
    ensures=[
        "buf.g_pos == old(buf.g_pos) + capacity + n_",
        "buf_mem_same(buf)",
    ],
    loops={0: dict(invariant=["buf_mem_same(buf)", "end == old(buf.g_pos) + capacity + n_", "end == old(buf.g_pos) + capacity + length"], modifies=["buf.g_pos"])},
    prop=["C17"],
)

R.contract(
    "push_list.func",
    callback=True,
    trusted=True,
    raises={"BufferWriteError": None, "ValueError": None},
    modifies=["buf.g_pos", "buf.g_mem"],
    ensures=["buf.g_pos >= old(buf.g_pos)", "buf.g_cap == old(buf.g_cap)", "mem_eq_outside(buf, old(buf.g_pos), buf.g_pos)"],
    note="item writer passed to push_list: external code here; an APPENDING writer (bytes below the entry position and above the exit position are untouched)",
)
R.contract(
    "push_list",
    specialize={"capacity": [1, 2, 3]},
    params={"values": "list[Any]"},
    requires=_CAP,
    raises={"BufferReadError": None, "BufferWriteError": None, "ValueError": None, "OverflowError": None},
    modifies=["buf.g_pos", "buf.g_mem"],
    ensures=[
        "buf.g_pos >= old(buf.g_pos) + capacity",
        "buf.g_cap == old(buf.g_cap)",
        # the prefix is the byte length of what the item writers appended
        "vec_len(buf.g_mem, old(buf.g_pos), capacity) == buf.g_pos - old(buf.g_pos) - capacity",
        "mem_eq_outside(buf, old(buf.g_pos), buf.g_pos)",
    ],
    loops={0: dict(invariant=["0 <= _i0 <= len(values)", "buf.g_pos >= old(buf.g_pos) + capacity", "buf.g_cap == old(buf.g_cap)", "mem_eq_outside(buf, old(buf.g_pos), buf.g_pos)"], modifies=["buf.g_pos", "buf.g_mem"])},
    prop=["C17"],
)

# ------------------------------------------------------------------------------------------------ packet headers
# RFC 9000 section 17.2 (long header), 17.2.1 (Version Negotiation), 17.2.2-17.2.5 (Initial, 0-RTT, Handshake, Retry),
# 17.3.1 (1-RTT short header), RFC 9369 section 3.2 (long packet type codes of QUIC v2), written as functions of the
# datagram bytes m, the start p of the packet and the datagram size cap:
#
#   byte p        : 1 L=1 | 1 fixed | 2 type | 4 type-specific         (long)      0 | 1 fixed | ...   (short)
#   p+1 .. p+4    : version (big-endian)
#   p+5           : DCID length dl (<= 20 in v1/v2; aioquic applies the limit to every version), then dl bytes DCID
#   p+6+dl        : SCID length sl (<= 20), then sl bytes SCID                  o = p + 7 + dl + sl
#   version 0     : Version Negotiation: 32-bit versions up to the end of the datagram
#   Initial       : token length (varint), token, Length (varint)       0-RTT / Handshake : Length (varint)
#   Retry         : token = everything up to the last 16 bytes, which are the Retry integrity tag
#   packet length = header + Length (must not exceed the datagram); Retry, VN and short packets extend to the end.
R.spec(
    """
def h_long(m, p):
    return at(m, p) >= 128

def h_fixed(m, p):
    return (at(m, p) // 64) % 2 == 1

def h_code(m, p):
    return (at(m, p) // 16) % 4

def h_ver(m, p):
    return be4(m, p + 1)

def h_dl(m, p):
    return at(m, p + 5)

def h_sl(m, p):
    return at(m, p + 6 + h_dl(m, p))

def h_o(m, p):
    return p + 7 + h_dl(m, p) + h_sl(m, p)

def h_type(ver, code):
    # RFC 9369 3.2: Initial 0b01, 0-RTT 0b10, Handshake 0b11, Retry 0b00;  RFC 9000 17.2: 0, 1, 2, 3.
    # value = QuicPacketType member value (INITIAL 0, ZERO_RTT 1, HANDSHAKE 2, RETRY 3)
    return ite(ver == 1798521807, (code + 3) % 4, code)

def vfits(m, q, cap):
    return q < cap and q + varint_len(at(m, q)) <= cap

def vnext(m, q):
    return q + varint_len(at(m, q))

def h_cids_ok(m, p, cap):
    return p + 6 <= cap and h_dl(m, p) <= 20 and p + 7 + h_dl(m, p) <= cap and h_sl(m, p) <= 20 and h_o(m, p) <= cap

def h_initial_ok(m, o, cap):
    return (vfits(m, o, cap) and vnext(m, o) + varint_val(m, o) <= cap
            and vfits(m, vnext(m, o) + varint_val(m, o), cap)
            and vnext(m, vnext(m, o) + varint_val(m, o)) + varint_val(m, vnext(m, o) + varint_val(m, o)) <= cap)

def h_len_ok(m, o, cap):
    return vfits(m, o, cap) and vnext(m, o) + varint_val(m, o) <= cap

def h_long_ok(m, p, cap):
    return h_cids_ok(m, p, cap) and ite(h_ver(m, p) == 0, (cap - h_o(m, p)) % 4 == 0,
        h_fixed(m, p) and ite(h_type(h_ver(m, p), h_code(m, p)) == 0, h_initial_ok(m, h_o(m, p), cap),
                          ite(h_type(h_ver(m, p), h_code(m, p)) == 3, h_o(m, p) + 16 <= cap, h_len_ok(m, h_o(m, p), cap))))

def h_ok(m, p, cap, hcl):
    return p < cap and ite(h_long(m, p), h_long_ok(m, p, cap), h_fixed(m, p) and 0 <= hcl and p + 1 + hcl <= cap)
"""
)
R.field_types("QuicHeader", version="Optional[int]", packet_type="QuicPacketType", packet_length="int", destination_cid="bytes", source_cid="bytes",
              token="bytes", integrity_tag="bytes", supported_versions="list[int]")
R.contract("is_long_header", inline=True)
R.contract("get_spin_bit", inline=True)

_HDR_LET = {
    "m_": "buf.g_mem", "p_": "buf.g_pos", "cap_": "buf.g_cap",
    "hcl_": "some(host_cid_length) if host_cid_length is not None else 0",
    "o_": "h_o(buf.g_mem, buf.g_pos)",
    "ty_": "h_type(h_ver(buf.g_mem, buf.g_pos), h_code(buf.g_mem, buf.g_pos))",
    "vn_": "h_long(buf.g_mem, buf.g_pos) and h_ver(buf.g_mem, buf.g_pos) == 0",
    "lg_": "h_long(buf.g_mem, buf.g_pos) and h_ver(buf.g_mem, buf.g_pos) != 0",
    # Initial: token starts at t0_, Length field at l0_ ; others: Length field at o_
    "t0_": "vnext(buf.g_mem, h_o(buf.g_mem, buf.g_pos))",
    "tl_": "varint_val(buf.g_mem, h_o(buf.g_mem, buf.g_pos))",
}
R.contract(
    "pull_quic_header",
    params={"host_cid_length": "Optional[int]"},
    returns="QuicHeader",
    locals={"supported_versions": "list[int]"},
    let=_HDR_LET,
    # a short header can only be parsed when the caller says how long its own connection IDs are
    requires=["implies(buf.g_pos < buf.g_cap and not h_long(buf.g_mem, buf.g_pos), host_cid_length is not None)"],
    # refused (ValueError, of which BufferReadError is a subclass) EXACTLY when the bytes are not a well-formed header:
    # in particular 20-byte connection IDs are accepted and 21-byte ones refused
    raises={"ValueError": "not h_ok(m_, p_, cap_, hcl_)"},
    modifies=["buf.g_pos"],
    ensures=[
        "buf_mem_same(buf)",
        # --- long header, common part
        "implies(h_long(m_, p_), result.version is not None and some(result.version) == h_ver(m_, p_))",
        "implies(h_long(m_, p_), bytes_eq(result.destination_cid, m_[p_ + 6 : p_ + 6 + h_dl(m_, p_)]) and len(result.destination_cid) == h_dl(m_, p_))",
        "implies(h_long(m_, p_), bytes_eq(result.source_cid, m_[p_ + 7 + h_dl(m_, p_) : o_]) and len(result.source_cid) == h_sl(m_, p_))",
        # --- Version Negotiation
        "implies(vn_, result.packet_type == QuicPacketType.VERSION_NEGOTIATION and result.packet_length == cap_ - p_ and buf.g_pos == cap_)",
        "implies(vn_, len(result.supported_versions) * 4 == cap_ - o_ and forall(lambda k: implies(0 <= k < len(result.supported_versions), elem(result.supported_versions, k) == be4(m_, o_ + 4 * k))))",
        "implies(vn_, len(result.token) == 0 and len(result.integrity_tag) == 0)",
        "implies(not vn_, len(result.supported_versions) == 0)",
        # --- Initial / 0-RTT / Handshake / Retry, type codes of both versions
        "implies(lg_, result.packet_type.value == ty_)",
        "implies(lg_ and ty_ == 0, bytes_eq(result.token, m_[t0_ : t0_ + tl_]) and len(result.token) == tl_ and len(result.integrity_tag) == 0)",
        "implies(lg_ and ty_ == 0, buf.g_pos == vnext(m_, t0_ + tl_) and result.packet_length == buf.g_pos + varint_val(m_, t0_ + tl_) - p_)",
        "implies(lg_ and (ty_ == 1 or ty_ == 2), len(result.token) == 0 and len(result.integrity_tag) == 0)",
        "implies(lg_ and (ty_ == 1 or ty_ == 2), buf.g_pos == vnext(m_, o_) and result.packet_length == buf.g_pos + varint_val(m_, o_) - p_)",
        "implies(lg_ and ty_ == 3, bytes_eq(result.token, m_[o_ : cap_ - 16]) and len(result.token) == cap_ - 16 - o_)",
        "implies(lg_ and ty_ == 3, bytes_eq(result.integrity_tag, m_[cap_ - 16 : cap_]) and len(result.integrity_tag) == 16 and buf.g_pos == cap_ and result.packet_length == cap_ - p_)",
        # --- short header
        "implies(not h_long(m_, p_), result.version is None and result.packet_type == QuicPacketType.ONE_RTT and result.packet_length == cap_ - p_)",
        "implies(not h_long(m_, p_), bytes_eq(result.destination_cid, m_[p_ + 1 : p_ + 1 + hcl_]) and len(result.destination_cid) == hcl_ and len(result.source_cid) == 0)",
        "implies(not h_long(m_, p_), len(result.token) == 0 and len(result.integrity_tag) == 0 and buf.g_pos == p_ + 1 + hcl_)",
        # the packet never extends past the datagram
        "p_ < p_ + result.packet_length <= cap_",
    ],
    loops={0: dict(invariant=[
        "buf_mem_same(buf)", "o_ <= buf.g_pos <= cap_", "(buf.g_pos - o_) % 4 == 0", "len(supported_versions) * 4 == buf.g_pos - o_",
        "forall(lambda k: implies(0 <= k < len(supported_versions), elem(supported_versions, k) == be4(m_, o_ + 4 * k)))",
    ], modifies=["buf.g_pos"], decreases="buf.g_cap - buf.g_pos")},
    prop=["C17"],
)

# first byte of a long header (RFC 9000 17.2 / RFC 9369 3.2): 1 | 1 | type code of THIS version | type-specific bits.
# The postcondition is the round trip through the decoder's specification functions plus the RFC code table.
R.contract(
    "encode_long_header_first_byte",
    returns="int",
    requires=["0 <= bits < 16", "0 <= packet_type.value <= 3"],  # the four long packet types (others have no long-header code: KeyError)
    ensures=[
        "128 <= result < 256 and (result // 64) % 2 == 1",
        "result % 16 == bits",
        "h_type(version, (result // 16) % 4) == packet_type.value",
        # RFC tables, spelled out: v1 Initial 0, 0-RTT 1, Handshake 2, Retry 3; v2 Initial 1, 0-RTT 2, Handshake 3, Retry 0
        "(result // 16) % 4 == ite(version == 1798521807, ite(packet_type == QuicPacketType.INITIAL, 1, ite(packet_type == QuicPacketType.ZERO_RTT, 2, ite(packet_type == QuicPacketType.HANDSHAKE, 3, 0))),"
        " ite(packet_type == QuicPacketType.INITIAL, 0, ite(packet_type == QuicPacketType.ZERO_RTT, 1, ite(packet_type == QuicPacketType.HANDSHAKE, 2, 3))))",
    ],
    prop=["C17"],
)

# Retry integrity tag (RFC 9001 5.8, RFC 9369 3.3.3): AEAD_AES_128_GCM with the fixed key / nonce of the version,
# empty plaintext, associated data = Retry pseudo-packet = ODCID length (1 byte) || ODCID || Retry packet without tag.
# AES-GCM itself is an uninterpreted function of the byte STRINGS (bkey ids) it is given: what is proved is which
# inputs reach it.
R.module_names.add("AESGCM")
R.extern_module(
    "cryptography_aead_model.py",
    """
class AESGCM:
    def __init__(self, key: bytes) -> None: ...
    def encrypt(self, nonce: bytes, data: bytes, associated_data: bytes) -> bytes: ...
""",
)
R.field_types("AESGCM", g_key="bytes")
R.ufunc("aesgcm_seal", ["int", "int", "int", "int"], "bytes")  # (bkey key, bkey nonce, bkey plaintext, bkey aad) -> ciphertext || tag
R.contract("AESGCM.__init__", modifies=["self.g_key"], requires=["len(key) == 16 or len(key) == 24 or len(key) == 32"], ensures=["same(self.g_key, key)"], trusted=True, note="cryptography AESGCM(key)")
R.contract(
    "AESGCM.encrypt",
    returns="bytes",
    requires=["8 <= len(nonce) <= 128"],
    ensures=["same(result, aesgcm_seal(bkey(self.g_key), bkey(nonce), bkey(data), bkey(associated_data)))", "len(result) == len(data) + 16"],
    trusted=True,
    note="cryptography AESGCM.encrypt(nonce, data, aad): ciphertext || 16-byte tag, a function of the four byte strings",
)
R.spec(
    """
def retry_pseudo(y, odcid, pkt):
    return (len(y) == 1 + len(odcid) + len(pkt) and elem(y, 0) == len(odcid)
            and forall(lambda k: implies(0 <= k < len(odcid), elem(y, 1 + k) == elem(odcid, k)))
            and forall(lambda k: implies(0 <= k < len(pkt), elem(y, 1 + len(odcid) + k) == elem(pkt, k))))

def retry_key(version):
    return ite(version == 1798521807, bkey(b"\\x8f\\xb4\\xb0\\x1b\\x56\\xac\\x48\\xe2\\x60\\xfb\\xcb\\xce\\xad\\x7c\\xcc\\x92"), bkey(b"\\xbe\\x0c\\x69\\x0b\\x9f\\x66\\x57\\x5a\\x1d\\x76\\x6b\\x54\\xe3\\x68\\xc8\\x4e"))

def retry_nonce(version):
    return ite(version == 1798521807, bkey(b"\\xd8\\x69\\x69\\xbc\\x2d\\x7c\\x6d\\x99\\x90\\xef\\xb0\\x4a"), bkey(b"\\x46\\x15\\x99\\xd3\\x5d\\x63\\x2b\\xf2\\x23\\x98\\x25\\xbb"))

def retry_tag_is(tag, odcid, pkt, version):
    return forall(lambda y: implies(retry_pseudo(y, odcid, pkt), bytes_eq(tag, aesgcm_seal(retry_key(version), retry_nonce(version), bkey(b""), bkey(y)))), types={'y': 'bytes'})
"""
)
R.contract(
    "get_retry_integrity_tag",
    returns="bytes",
    requires=["len(original_destination_cid) <= 255"],
    raises={"MemoryError": None},
    ensures=["len(result) == 16", "retry_tag_is(result, original_destination_cid, packet_without_tag, version)"],
    prop=["C17"],
)

# Retry packet (RFC 9000 17.2.5): first byte | version | DCID len | DCID | SCID len | SCID | Retry token | 16-byte tag,
# the tag computed over everything before it.  Stated through the DECODER's specification functions h_*: these are the
# facts from which pull_quic_header's postcondition returns version, both CIDs, the token and the tag unchanged.
_RETRY_N = "7 + len(destination_cid) + len(source_cid) + len(retry_token) + 16"
R.contract(
    "encode_quic_retry",
    returns="bytes",
    requires=["0 <= version < 4294967296", "len(destination_cid) <= 255", "len(source_cid) <= 255", "len(original_destination_cid) <= 255", "0 <= unused < 16"],
    raises={"MemoryError": None},
    let={"n_": _RETRY_N, "o_": "7 + len(destination_cid) + len(source_cid)"},
    ensures=[
        "len(result) == n_",
        "h_long(result, 0) and h_fixed(result, 0) and h_type(version, h_code(result, 0)) == 3 and at(result, 0) % 16 == unused",
        "h_ver(result, 0) == version",
        "h_dl(result, 0) == len(destination_cid) and forall(lambda k: implies(0 <= k < len(destination_cid), elem(result, 6 + k) == elem(destination_cid, k)))",
        "h_sl(result, 0) == len(source_cid) and forall(lambda k: implies(0 <= k < len(source_cid), elem(result, 7 + len(destination_cid) + k) == elem(source_cid, k)))",
        "forall(lambda k: implies(0 <= k < len(retry_token), elem(result, o_ + k) == elem(retry_token, k)))",
        "retry_tag_is(result[n_ - 16 :], original_destination_cid, result[: n_ - 16], version)",
        # accepted by the decoder's well-formedness predicate whenever the connection IDs are of legal length
        "implies(len(destination_cid) <= 20 and len(source_cid) <= 20 and version != 0, h_ok(result, 0, len(result), 0))",
    ],
    prop=["C17"],
)

# Version Negotiation packet (RFC 9000 17.2.1): first byte with the long-header bit (other bits arbitrary), version 0,
# DCID, SCID, then the supported versions as 32-bit integers up to the end of the datagram.
R.contract(
    "encode_quic_version_negotiation",
    returns="bytes",
    requires=["len(destination_cid) <= 255", "len(source_cid) <= 255",
              "forall(lambda k: implies(0 <= k < len(supported_versions), 0 <= elem(supported_versions, k) < 4294967296))"],
    raises={"MemoryError": None},
    let={"o_": "7 + len(destination_cid) + len(source_cid)"},
    ensures=[
        "len(result) == o_ + 4 * len(supported_versions)",
        "h_long(result, 0) and h_ver(result, 0) == 0",
        "h_dl(result, 0) == len(destination_cid) and forall(lambda k: implies(0 <= k < len(destination_cid), elem(result, 6 + k) == elem(destination_cid, k)))",
        "h_sl(result, 0) == len(source_cid) and forall(lambda k: implies(0 <= k < len(source_cid), elem(result, 7 + len(destination_cid) + k) == elem(source_cid, k)))",
        "forall(lambda k: implies(0 <= k < len(supported_versions), be4(result, o_ + 4 * k) == elem(supported_versions, k)))",
        "implies(len(destination_cid) <= 20 and len(source_cid) <= 20, h_ok(result, 0, len(result), 0))",
    ],
    loops={0: dict(invariant=[
        "0 <= _i0 <= len(supported_versions)", "buf.g_pos == o_ + 4 * _i0", "buf.g_cap == o_ + 4 * len(supported_versions)",
        "at(buf.g_mem, 0) >= 128 and be4(buf.g_mem, 1) == 0",
        "at(buf.g_mem, 5) == len(destination_cid) and forall(lambda k: implies(0 <= k < len(destination_cid), elem(buf.g_mem, 6 + k) == elem(destination_cid, k)))",
        "at(buf.g_mem, 6 + len(destination_cid)) == len(source_cid) and forall(lambda k: implies(0 <= k < len(source_cid), elem(buf.g_mem, 7 + len(destination_cid) + k) == elem(source_cid, k)))",
        "forall(lambda k: implies(0 <= k < _i0, be4(buf.g_mem, o_ + 4 * k) == elem(supported_versions, k)))",
    ], modifies=["buf.g_pos", "buf.g_mem"])},
    prop=["C17"],
)

# ------------------------------------------------------------------------------------------------ ACK frames
# RFC 9000 section 19.3 (after the frame type): Largest Acknowledged, ACK Delay, ACK Range Count, First ACK Range, then
# for every further range in DESCENDING order (Gap, ACK Range Length), all varints, where
#   First ACK Range = largest - smallest of the highest range,
#   Gap             = (smallest of the preceding range) - (largest of this range) - 2,
#   Range Length    = largest - smallest of this range.
# ack_seq(R, n, delay, j) is the j-th integer of that sequence for the sorted, non-adjacent ranges R[0..n) (half-open,
# as RangeSet keeps them).  The encoder's postcondition: reading 2n+2 varints one after the other from the entry
# position yields exactly ack_seq and ends at the exit position; g_off[j] (ghost) is where the j-th varint starts - it
# is determined by the clause itself (g_off[0] = entry position, g_off[j+1] = g_off[j] + size of the j-th varint).
R.spec(
    """
def ack_seq(R, n, delay, j):
    return ite(j == 0, sel(R, n - 1).stop - 1,
           ite(j == 1, delay,
           ite(j == 2, n - 1,
           ite(j == 3, sel(R, n - 1).stop - 1 - sel(R, n - 1).start,
           ite(j % 2 == 0, sel(R, n - (j - 2) // 2).start - sel(R, n - 1 - (j - 2) // 2).stop - 1,
                           sel(R, n - 1 - (j - 3) // 2).stop - sel(R, n - 1 - (j - 3) // 2).start - 1)))))

def ack_written(m, off, R, n, delay, lo, hi):
    return forall(lambda j: implies(lo <= j < hi,
        varint_val(m, off[j]) == ack_seq(R, n, delay, j) and varint_len(at(m, off[j])) == varint_size(ack_seq(R, n, delay, j))
        and off[j + 1] == off[j] + varint_size(ack_seq(R, n, delay, j))))

def vals_written(m, off, val, lo, hi):
    return forall(lambda j: implies(lo <= j < hi,
        varint_val(m, off[j]) == val[j] and varint_len(at(m, off[j])) == varint_size(val[j]) and off[j + 1] == off[j] + varint_size(val[j])))

def vals_are_ack(val, R, n, delay, lo, hi):
    return forall(lambda j: implies(lo <= j < hi, val[j] == ack_seq(R, n, delay, j)))
"""
)
# Proof device: g_img (ghost) is the image of the bytes written so far (g_img[k] = byte k for entry position <= k <
# current position); the loop invariant states the decoding over g_img, whose earlier entries never change, and the
# postcondition transfers it to the buffer's memory.
def _G(j, prev):
    return {
        "g_img": "amap(lambda k: elem(buf.g_mem, k) if g_off[%s] <= k < buf.g_pos else g_img[k])" % prev,
        "g_off": "amap(lambda x: buf.g_pos if x == %s else g_off[x])" % j,
        "g_val": "amap(lambda x: varint_val(buf.g_mem, g_off[%s]) if x == %s else g_val[x])" % (prev, prev),
    }


_J = "2 * (ranges - 1 - index)"
R.contract(
    "push_ack_frame",
    returns="int",
    locals={"g_off": "map[int,int]", "g_img": "map[int,int]", "g_val": "map[int,int]"},
    let={"R_": "RL(rangeset)", "n_": "len(RL(rangeset))"},
    # domain: a non-empty set of packet numbers in [0, 2^62), a delay that is a varint
    # (the bound on the number of ranges follows from the other clauses by counting; a Python list cannot be that long)
    requires=["1 <= len(RL(rangeset)) <= 4611686018427387904", "sel(RL(rangeset), 0).start >= 0", "sel(RL(rangeset), len(RL(rangeset)) - 1).stop <= 4611686018427387904", "0 <= delay <= 4611686018427387903"],
    raises={"BufferWriteError": None},
    # it fails only when the worst-case size of the frame body (2n+2 varints of 8 bytes) does not fit
    on_raise={"BufferWriteError": ["old(buf.g_pos) + 16 * n_ + 16 > buf.g_cap"]},
    modifies=["buf.g_pos", "buf.g_mem"],
    ensures=[
        "result == n_",
        "same(RL(rangeset), R_)",
        "buf.g_cap == old(buf.g_cap)",
        "g_off[0] == old(buf.g_pos) and g_off[2 * n_ + 2] == buf.g_pos",
        "ack_written(buf.g_mem, g_off, R_, n_, delay, 0, 2 * n_ + 2)",
        "mem_eq_outside(buf, old(buf.g_pos), buf.g_pos)",
        # size: 2n+2 varints of at most 8 bytes (what QuicConnection._write_ack_frame has to announce to the packet builder)
        "buf.g_pos - old(buf.g_pos) <= 16 * n_ + 16",
        "buf.g_pos > old(buf.g_pos)",
    ],
    ghost_at={
        "buf.push_uint_var(r.stop - 1)": {"g_off": "amap(lambda x: buf.g_pos)", "g_img": "amap(lambda k: 0)", "g_val": "amap(lambda k: 0)"},
        "buf.push_uint_var(delay)": _G("1", "0"),
        "buf.push_uint_var(index)": _G("2", "1"),
        "buf.push_uint_var(r.stop - 1 - r.start)": _G("3", "2"),
        "start = r.start#0": _G("4", "3"),
        "buf.push_uint_var(start - r.stop - 1)": {},
        "buf.push_uint_var(r.stop - r.start - 1)": _G("3 + " + _J, "2 + " + _J),
        "start = r.start#1": _G("4 + " + _J, "3 + " + _J),
    },
    cuts={"buf.push_uint_var(r.stop - r.start - 1)": [
        "g_off[0] == old(buf.g_pos) and g_off[3 + 2 * (ranges - 1 - index)] == buf.g_pos",
        "forall(lambda k: implies(old(buf.g_pos) <= k < buf.g_pos, elem(buf.g_mem, k) == g_img[k]))",
        "forall(lambda j: implies(0 <= j < 3 + 2 * (ranges - 1 - index), old(buf.g_pos) <= g_off[j] and g_off[j] < g_off[j + 1] and g_off[j + 1] <= buf.g_pos))",
        "vals_written(g_img, g_off, g_val, 2 + 2 * (ranges - 1 - index), 3 + 2 * (ranges - 1 - index))",
        "vals_written(g_img, g_off, g_val, 0, 2 + 2 * (ranges - 1 - index))",
        "vals_written(g_img, g_off, g_val, 0, 3 + 2 * (ranges - 1 - index))",
        "g_val[2 + 2 * (ranges - 1 - index)] == ack_seq(R_, n_, delay, 2 + 2 * (ranges - 1 - index))",
        "vals_are_ack(g_val, R_, n_, delay, 0, 2 + 2 * (ranges - 1 - index))",
        "vals_are_ack(g_val, R_, n_, delay, 0, 3 + 2 * (ranges - 1 - index))",
    ], "start = r.start#1": [
        "vals_written(g_img, g_off, g_val, 3 + 2 * (ranges - 1 - index), 4 + 2 * (ranges - 1 - index))",
        "vals_written(g_img, g_off, g_val, 0, 3 + 2 * (ranges - 1 - index))",
        "vals_written(g_img, g_off, g_val, 0, 4 + 2 * (ranges - 1 - index))",
        "g_val[3 + 2 * (ranges - 1 - index)] == ack_seq(R_, n_, delay, 3 + 2 * (ranges - 1 - index))",
        "vals_are_ack(g_val, R_, n_, delay, 0, 3 + 2 * (ranges - 1 - index))",
        "vals_are_ack(g_val, R_, n_, delay, 0, 4 + 2 * (ranges - 1 - index))",
    ]},
    exit_cuts=[
        "forall(lambda k: implies(old(buf.g_pos) <= k < buf.g_pos, elem(buf.g_mem, k) == g_img[k]))",
        "vals_written(g_img, g_off, g_val, 0, 2 * n_ + 2)",
        "vals_are_ack(g_val, R_, n_, delay, 0, 2 * n_ + 2)",
        "forall(lambda j: implies(0 <= j < 2 * n_ + 2, old(buf.g_pos) <= g_off[j] and g_off[j] < g_off[j + 1] and g_off[j + 1] <= buf.g_pos))",
    ],
    loops={0: dict(invariant=[
        "0 <= index <= ranges - 1 and ranges == n_", "same(RL(rangeset), R_)", "start == sel(R_, index).start",
        "buf.g_cap == old(buf.g_cap)", "mem_eq_outside(buf, old(buf.g_pos), buf.g_pos)",
        "buf.g_pos - old(buf.g_pos) <= 8 * (4 + 2 * (ranges - 1 - index))",
        "g_off[0] == old(buf.g_pos) and g_off[4 + 2 * (ranges - 1 - index)] == buf.g_pos",
        "forall(lambda k: implies(old(buf.g_pos) <= k < buf.g_pos, elem(buf.g_mem, k) == g_img[k]))",
        "vals_written(g_img, g_off, g_val, 0, 4 + 2 * (ranges - 1 - index))",
        "vals_are_ack(g_val, R_, n_, delay, 0, 4 + 2 * (ranges - 1 - index))",
        "forall(lambda j: implies(0 <= j < 4 + 2 * (ranges - 1 - index), old(buf.g_pos) <= g_off[j] and g_off[j] < g_off[j + 1] and g_off[j + 1] <= buf.g_pos))",
    ], modifies=["buf.g_pos", "buf.g_mem", "g_off", "g_img", "g_val"], decreases="index")},
    prop=["C17"],
)

# Decoder (RFC 9000 19.3, 19.3.1): the varints are read one after the other (g_off[j] = start of the j-th one, g_v[j] =
# its value; ghosts determined by g_off[0] = entry position, g_off[j+1] = g_off[j] + encoded length); with c = g_v[2] =
# ACK Range Count,
#   range 0 = [largest - first, largest],  range i = [hi_i - len_i, hi_i]  with  hi_i = lo_(i-1) - gap_i - 2   (i = 1..c)
# (g_lo / g_hi, ghost, determined by these clauses) and the set returned is exactly the union of these c + 1 ranges
# (g_w[x] = witness: a range containing x).  This is the inverse of ack_seq above: hi_i / lo_i are the largest /
# smallest of the (n-1-i)-th range of the encoder.  First ACK Range > Largest (a negative smallest) is NOT refused -
# the statement allows it (the value still re-encodes to an equivalent frame).  Only BufferReadError escapes.
R.spec(
    """
def ack_offsets(m, cap, off, v, lo, hi):
    return forall(lambda j: implies(lo <= j < hi, vfits(m, off[j], cap) and off[j + 1] == vnext(m, off[j]) and v[j] == varint_val(m, off[j])))

def ack_ranges_part(v, lo, hi, a, b):
    return forall(lambda i: implies(a <= i <= b, hi[i] == lo[i - 1] - v[2 + 2 * i] - 2 and lo[i] == hi[i] - v[3 + 2 * i]))

def ack_ranges(v, lo, hi, c):
    return hi[0] == v[0] and lo[0] == hi[0] - v[3] and ack_ranges_part(v, lo, hi, 1, c)

def ack_set(rs, lo, hi, w, c):
    return (forall(lambda x: implies(rs.gview[x], 0 <= w[x] <= c and lo[w[x]] <= x <= hi[w[x]]))
            and forall(lambda i, x: implies(0 <= i <= c and lo[i] <= x <= hi[i], rs.gview[x])))
"""
)
def _S(name, j, val):
    return "amap(lambda x: %s if x == %s else %s[x])" % (val, j, name)


R.contract(
    "pull_ack_frame",
    returns="tuple[RangeSet,int]",
    locals={"g_off": "map[int,int]", "g_v": "map[int,int]", "g_lo": "map[int,int]", "g_hi": "map[int,int]", "g_w": "map[int,int]"},
    let={"m_": "buf.g_mem", "cap_": "buf.g_cap"},
    raises={"BufferReadError": None},
    modifies=["buf.g_pos"],
    ensures=[
        "buf_mem_same(buf)",
        "g_off[0] == old(buf.g_pos)",
        "ack_offsets(m_, cap_, g_off, g_v, 0, 4 + 2 * g_v[2])",
        "buf.g_pos == g_off[4 + 2 * g_v[2]]",
        "result[1] == g_v[1]",
        "ack_ranges(g_v, g_lo, g_hi, g_v[2])",
        "ack_set(result[0], g_lo, g_hi, g_w, g_v[2])",
    ],
    ghost_at={
        "end = buf.pull_uint_var()": {"g_off": "amap(lambda x: buf.g_pos)", "g_v": "amap(lambda x: 0)"},
        "delay = buf.pull_uint_var()": {"g_off": _S("g_off", "1", "buf.g_pos"), "g_v": _S("g_v", "0", "end")},
        "ack_range_count = buf.pull_uint_var()": {"g_off": _S("g_off", "2", "buf.g_pos"), "g_v": _S("g_v", "1", "delay")},
        "ack_count = buf.pull_uint_var()#0": {"g_off": _S("g_off", "3", "buf.g_pos"), "g_v": _S("g_v", "2", "ack_range_count")},
        "rangeset.add(end - ack_count, end + 1)#0": {"g_off": _S("g_off", "4", "buf.g_pos"), "g_v": _S("g_v", "3", "ack_count"),
                                                     "g_hi": "amap(lambda x: end)", "g_lo": "amap(lambda x: end - ack_count)", "g_w": "amap(lambda x: 0)"},
        "ack_count = buf.pull_uint_var()#1": {"g_off": _S("g_off", "5 + 2 * _", "buf.g_pos"), "g_v": _S("g_v", "4 + 2 * _", "g_lo[_] - end - 2")},
        "rangeset.add(end - ack_count, end + 1)#1": {
            "g_off": _S("g_off", "6 + 2 * _", "buf.g_pos"), "g_v": _S("g_v", "5 + 2 * _", "ack_count"),
            "g_hi": _S("g_hi", "_ + 1", "end"), "g_lo": _S("g_lo", "_ + 1", "end - ack_count"),
            "g_w": "amap(lambda x: _ + 1 if end - ack_count <= x <= end else g_w[x])",
        },
    },
    cuts={"rangeset.add(end - ack_count, end + 1)#1": [
        "ack_offsets(m_, cap_, g_off, g_v, 0, 4 + 2 * _)",
        "ack_offsets(m_, cap_, g_off, g_v, 4 + 2 * _, 5 + 2 * _)",
        "ack_offsets(m_, cap_, g_off, g_v, 5 + 2 * _, 6 + 2 * _)",
        "ack_offsets(m_, cap_, g_off, g_v, 0, 6 + 2 * _)",
        "g_hi[0] == g_v[0] and g_lo[0] == g_hi[0] - g_v[3]",
        "ack_ranges_part(g_v, g_lo, g_hi, _ + 1, _ + 1)",
        "ack_ranges_part(g_v, g_lo, g_hi, 1, _)",
        "ack_ranges(g_v, g_lo, g_hi, _ + 1)",
    ]},
    loops={0: dict(invariant=[
        "0 <= _i0 <= ack_range_count", "buf_mem_same(buf)", "g_off[0] == old(buf.g_pos)",
        "ack_offsets(m_, cap_, g_off, g_v, 0, 4 + 2 * _i0)", "buf.g_pos == g_off[4 + 2 * _i0]",
        "delay == g_v[1] and ack_range_count == g_v[2]",
        "ack_ranges(g_v, g_lo, g_hi, _i0)", "end == g_lo[_i0]",
        "ack_set(rangeset, g_lo, g_hi, g_w, _i0)",
    ], modifies=["buf.g_pos", "rangeset._RangeSet__ranges", "rangeset.gview", "rangeset.gidx", "g_off", "g_v", "g_lo", "g_hi", "g_w"])},
    prop=["C17"],
)

# ------------------------------------------------------------------------------------------------ version information
# RFC 9368 section 3: Chosen Version (32 bits) followed by Available Versions (32 bits each) filling the parameter;
# section 4: a Chosen or Available Version of 0 is a parsing failure.  `length` is the declared parameter length: the
# decoder reads max(1, length // 4) words - the caller (pull_quic_transport_parameters) refuses the parameter when that
# is not exactly `length` bytes.
R.field_types("QuicVersionInformation", chosen_version="int", available_versions="list[int]")
R.spec(
    """
def vi_words(length):
    return ite(length // 4 >= 1, length // 4, 1)
"""
)
R.contract(
    "pull_quic_version_information",
    returns="QuicVersionInformation",
    locals={"available_versions": "list[int]"},
    let={"m_": "buf.g_mem", "p_": "buf.g_pos", "w_": "vi_words(length)"},
    raises={"ValueError": "p_ + 4 * w_ > buf.g_cap or be4(m_, p_) == 0 or exists(lambda k: 0 <= k < w_ - 1 and be4(m_, p_ + 4 + 4 * k) == 0)"},
    modifies=["buf.g_pos"],
    ensures=[
        "buf_mem_same(buf)", "buf.g_pos == p_ + 4 * w_",
        "result.chosen_version == be4(m_, p_)",
        "len(result.available_versions) == w_ - 1",
        "forall(lambda k: implies(0 <= k < w_ - 1, elem(result.available_versions, k) == be4(m_, p_ + 4 + 4 * k)))",
    ],
    exit_cuts=["forall(lambda k: implies(0 <= k < len(available_versions), elem(available_versions, k) != 0))",
               "be4(m_, p_) != 0 and forall(lambda k: implies(0 <= k < w_ - 1, be4(m_, p_ + 4 + 4 * k) != 0))"],
    loops={0: dict(invariant=[
        "0 <= _i0 and (_i0 <= length // 4 - 1 or _i0 == 0)", "buf_mem_same(buf)", "buf.g_pos == p_ + 4 + 4 * _i0", "buf.g_pos <= buf.g_cap", "len(available_versions) == _i0",
        "forall(lambda k: implies(0 <= k < _i0, elem(available_versions, k) == be4(m_, p_ + 4 + 4 * k)))",
    ], modifies=["buf.g_pos"])},
    prop=["C17"],
)
R.contract(
    "push_quic_version_information",
    let={"p_": "buf.g_pos", "n_": "len(version_information.available_versions)"},
    requires=["0 <= version_information.chosen_version < 4294967296",
              "forall(lambda k: implies(0 <= k < len(version_information.available_versions), 0 <= elem(version_information.available_versions, k) < 4294967296))"],
    raises={"BufferWriteError": "buf.g_pos + 4 + 4 * len(version_information.available_versions) > buf.g_cap"},
    modifies=["buf.g_pos", "buf.g_mem"],
    ensures=[
        "buf.g_pos == p_ + 4 + 4 * n_", "buf.g_cap == old(buf.g_cap)",
        "be4(buf.g_mem, p_) == version_information.chosen_version",
        "forall(lambda k: implies(0 <= k < n_, be4(buf.g_mem, p_ + 4 + 4 * k) == elem(version_information.available_versions, k)))",
        "mem_eq_outside(buf, p_, buf.g_pos)",
    ],
    loops={0: dict(invariant=[
        "0 <= _i0 <= n_", "buf.g_pos == p_ + 4 + 4 * _i0", "buf.g_pos <= buf.g_cap", "buf.g_cap == old(buf.g_cap)", "be4(buf.g_mem, p_) == version_information.chosen_version",
        "forall(lambda k: implies(0 <= k < _i0, be4(buf.g_mem, p_ + 4 + 4 * k) == elem(version_information.available_versions, k)))",
        "mem_eq_outside(buf, p_, buf.g_pos)",
    ], modifies=["buf.g_pos", "buf.g_mem"])},
    prop=["C17"],
)

# ------------------------------------------------------------------------------------------------ TLS Finished
# RFC 8446 section 4 / 4.4.4: struct { HandshakeType msg_type (finished = 20); uint24 length; opaque verify_data[length] }.
# Registered as contract VARIANTS ("#c17"): call sites in tls.Context (C11) keep using the coarser stubs of tls_state.py.
R.contract("pull_handshake_type", inline=True)
R.contract(
    "pull_finished#c17",
    returns="Finished",
    let={"m_": "buf.g_mem", "p_": "buf.g_pos", "n_": "be3(buf.g_mem, buf.g_pos + 1)"},
    # a well-formed Finished is never refused; a wrong message type is an AssertionError in aioquic (NOT a documented
    # parse error): it is therefore a precondition here - tls.Context dispatches on the type byte before calling (C11)
    requires=["implies(buf.g_pos < buf.g_cap, at(buf.g_mem, buf.g_pos) == 20)"],
    raises={"BufferReadError": "p_ + 4 > buf.g_cap or p_ + 4 + n_ > buf.g_cap"},
    modifies=["buf.g_pos"],
    ensures=["buf_mem_same(buf)", "buf.g_pos == p_ + 4 + n_", "len(result.verify_data) == n_", "bytes_eq(result.verify_data, m_[p_ + 4 : p_ + 4 + n_])"],
    prop=["C17"],
)
R.contract(
    "push_finished#c17",
    let={"p_": "buf.g_pos", "n_": "len(finished.verify_data)"},
    requires=["len(finished.verify_data) < 16777216"],
    raises={"BufferWriteError": "buf.g_pos + 1 > buf.g_cap or (buf.g_pos + 4 <= buf.g_cap and buf.g_pos + 4 + len(finished.verify_data) > buf.g_cap)",
            "BufferReadError": "buf.g_pos + 1 <= buf.g_cap and buf.g_pos + 4 > buf.g_cap"},
    modifies=["buf.g_pos", "buf.g_mem"],
    ensures=[
        "buf.g_pos == p_ + 4 + n_", "buf.g_cap == old(buf.g_cap)",
        "at(buf.g_mem, p_) == 20 and be3(buf.g_mem, p_ + 1) == n_",
        "forall(lambda k: implies(0 <= k < n_, elem(buf.g_mem, p_ + 4 + k) == elem(finished.verify_data, k)))",
        "mem_eq_outside(buf, p_, buf.g_pos)",
    ],
    prop=["C17"],
)

# TLS CertificateVerify (RFC 8446 4.4.3): type 15, uint24 length, SignatureScheme algorithm (uint16), opaque signature<0..2^16-1>.
# The nested lengths must agree in BOTH directions: body shorter than declared (trailing garbage) and body longer than
# declared (signature running past the message) are refused with AlertDecodeError, and only then.
R.field_types("CertificateVerify", algorithm="int", signature="bytes")
R.contract(
    "pull_certificate_verify#c17",
    returns="CertificateVerify",
    let={"m_": "buf.g_mem", "p_": "buf.g_pos", "n_": "be3(buf.g_mem, buf.g_pos + 1)", "s_": "be2(buf.g_mem, buf.g_pos + 6)"},
    requires=["implies(buf.g_pos < buf.g_cap, at(buf.g_mem, buf.g_pos) == 15)"],  # type byte checked by the dispatcher (AssertionError otherwise, see pull_finished)
    raises={"BufferReadError": "p_ + 8 > buf.g_cap or p_ + 8 + s_ > buf.g_cap", "AlertDecodeError": "p_ + 8 + s_ <= buf.g_cap and n_ != 4 + s_"},
    expect_outcomes=["return", "AlertDecodeError"],
    modifies=["buf.g_pos"],
    ensures=["buf_mem_same(buf)", "buf.g_pos == p_ + 4 + n_", "result.algorithm == be2(m_, p_ + 4)", "len(result.signature) == s_", "bytes_eq(result.signature, m_[p_ + 8 : p_ + 8 + s_])"],
    prop=["C17"],
)

# ------------------------------------------------------------------------------------------------ lemmas (pure arithmetic)
def _lemma_ack_roundtrip():
    """decoder(encoder(R)) = R for ACK frames, over the two specification functions: feeding the integer sequence
    ack_seq(R, n, delay, .) (postcondition of push_ack_frame) to the range recurrences of pull_ack_frame's postcondition
    (hi_0 = S0, lo_0 = hi_0 - S3, hi_i = lo_(i-1) - S(2+2i) - 2, lo_i = hi_i - S(3+2i)) gives hi_i = R[n-1-i].stop - 1 and
    lo_i = R[n-1-i].start for every i (induction on i; base and step below), the count is n - 1 and the delay is the delay."""
    import z3
    from engine.pyvc.core import Obligation

    start, stop = z3.Function("R_start", z3.IntSort(), z3.IntSort()), z3.Function("R_stop", z3.IntSort(), z3.IntSort())
    n, i, delay, lo_prev = z3.Ints("n i delay lo_prev")

    def S(j):  # ack_seq, transcribed from the spec function above (j is a z3 term)
        return z3.If(j == 0, stop(n - 1) - 1, z3.If(j == 1, delay, z3.If(j == 2, n - 1, z3.If(j == 3, stop(n - 1) - 1 - start(n - 1),
               z3.If(j % 2 == 0, start(n - (j - 2) / 2) - stop(n - 1 - (j - 2) / 2) - 1, stop(n - 1 - (j - 3) / 2) - start(n - 1 - (j - 3) / 2) - 1)))))

    hi0 = S(z3.IntVal(0))
    lo0 = hi0 - S(z3.IntVal(3))
    hi_i = lo_prev - S(2 + 2 * i) - 2
    lo_i = hi_i - S(3 + 2 * i)
    step = [n >= 1, 1 <= i, i <= n - 1, lo_prev == start(n - i)]
    sorted_ = z3.ForAll([i], z3.Implies(z3.And(0 <= i, i < n - 1), z3.And(start(i) < stop(i), stop(i) < start(i + 1))))
    return [
        Obligation("ack_roundtrip:base", "lemma", [n >= 1], z3.And(hi0 == stop(n - 1) - 1, lo0 == start(n - 1)), note="range 0 decodes to the highest range of the set"),
        Obligation("ack_roundtrip:step", "lemma", step, z3.And(hi_i == stop(n - 1 - i) - 1, lo_i == start(n - 1 - i)), note="range i decodes to the (n-1-i)-th range, given range i-1 did"),
        Obligation("ack_roundtrip:count-delay", "lemma", [n >= 1], z3.And(S(z3.IntVal(2)) == n - 1, S(z3.IntVal(1)) == delay), note="range count = n - 1, delay unchanged"),
        Obligation("ack_roundtrip:nonneg", "lemma", step[:3] + [sorted_, start(n - 1) < stop(n - 1)], z3.And(S(2 + 2 * i) >= 0, S(3 + 2 * i) >= 0, S(z3.IntVal(3)) >= 0),
                   note="gaps and range lengths of a sorted, non-adjacent range list are non-negative (they are encodable varints)"),
    ]


def _lemma_long_type_roundtrip():
    """RFC 9000 17.2 / RFC 9369 3.2 type-code tables: decode(encode(t)) = t for both versions (over h_type and the table of
    encode_long_header_first_byte's postcondition), and the two versions really use different codes."""
    import z3
    from engine.pyvc.core import Obligation

    ver, t = z3.Ints("ver t")
    V2 = 1798521807
    enc = z3.If(ver == V2, z3.If(t == 0, 1, z3.If(t == 1, 2, z3.If(t == 2, 3, 0))), t)
    dec = lambda c: z3.If(ver == V2, (c + 3) % 4, c)
    return [
        Obligation("long_type_roundtrip:dec-enc", "lemma", [0 <= t, t <= 3], dec(enc) == t, note="type code round trip, any version"),
        Obligation("long_type_roundtrip:range", "lemma", [0 <= t, t <= 3], z3.And(0 <= enc, enc <= 3), note="codes fit the two type bits"),
    ]


R.lemma("ack_roundtrip", build=_lemma_ack_roundtrip, prop=["C17"])
R.lemma("long_type_roundtrip", build=_lemma_long_type_roundtrip, prop=["C17"])
