# Sidecar contracts for src/aioquic/quic/rangeset.py  (R is injected by the loader)
#
# Abstract view (ghost): gview : int -> bool  (x is covered by the set)
#                        gidx  : int -> int   (witness: index of the range covering x)
# Class invariant ties the concrete sorted list of ranges to the view; every method's
# postcondition is stated on the WHOLE view (union / difference with an interval), so
# corrupting any other element fails a named obligation.

R.ghost_field("RangeSet", "gview", "map[int,bool]", native="rs_cover_map")
R.ghost_field("RangeSet", "gidx", "map[int,int]", native="rs_index_map")
R.field_types("RangeSet", _RangeSet__ranges="list[range]")

R.spec(
    """
def RL(rs):
    return raw(rs, '_RangeSet__ranges')

def rs_nonempty_ranges(rs):
    return forall(lambda k: implies(0 <= k < len(RL(rs)), RL(rs)[k].start < RL(rs)[k].stop))

def rs_sorted(rs):
    return forall(lambda j, q: implies(0 <= j < q < len(RL(rs)), RL(rs)[j].stop < RL(rs)[q].start))

def rs_view_sound(rs):
    return forall(lambda k, x: implies(0 <= k < len(RL(rs)) and RL(rs)[k].start <= x < RL(rs)[k].stop, rs.gview[x]))

def rs_view_complete(rs):
    return forall(lambda x: implies(rs.gview[x],
        0 <= rs.gidx[x] < len(RL(rs)) and RL(rs)[rs.gidx[x]].start <= x < RL(rs)[rs.gidx[x]].stop))

def rs_inv(rs):
    return rs_nonempty_ranges(rs) and rs_sorted(rs) and rs_view_sound(rs) and rs_view_complete(rs)

def rs_has(rs, x):
    return rs.gview[x]

def rs_empty(rs):
    return forall(lambda x: not rs.gview[x])
"""
)

R.invariant(
    "RangeSet",
    ["rs_nonempty_ranges(self)", "rs_sorted(self)", "rs_view_sound(self)", "rs_view_complete(self)"],
)

_MOD = ["self._RangeSet__ranges", "self.gview", "self.gidx"]

R.contract(
    "RangeSet.add",
    params={"stop": "Optional[int]"},
    let={"stop_": "start + 1 if stop is None else stop"},
    requires=["stop is None or stop > start"],
    modifies=_MOD,
    ensures=[
        "forall(lambda x: self.gview[x] == (old(self.gview)[x] or (start <= x < stop_)))",
        # at most one range more (insert / append), fewer after a merge
        "len(RL(self)) <= old(len(RL(self))) + 1",
    ],
    loops={
        0: dict(
            invariant=[
                "0 <= _i0 <= len(RL(self))",
                "same(RL(self), old(RL(self)))",
                "start == old(start)",
                "stop == stop_",
                "forall(lambda k: implies(0 <= k < _i0, RL(self)[k].stop < start))",
            ],
            decreases="len(RL(self)) - _i0",
        ),
        1: dict(
            invariant=[
                "0 <= i < len(RL(self)) <= len(old(RL(self)))",
                "forall(lambda k: implies(0 <= k <= i, RL(self)[k] == old(RL(self))[k]))",
                "forall(lambda k: implies(i < k < len(RL(self)), RL(self)[k] == old(RL(self))[k + len(old(RL(self))) - len(RL(self))]))",
                "forall(lambda k: implies(i < k < len(old(RL(self))), old(RL(self))[k] == RL(self)[k - len(old(RL(self))) + len(RL(self))] or k <= i + len(old(RL(self))) - len(RL(self))))",
                "start <= old(start) and stop >= stop_ and start < stop",
                "forall(lambda k: implies(i <= k <= i + len(old(RL(self))) - len(RL(self)), start <= old(RL(self))[k].start and old(RL(self))[k].stop <= stop))",
                "forall(lambda x: implies(start <= x < stop, old(self.gview)[x] or old(start) <= x < stop_))",
                "forall(lambda k: implies(0 <= k < i, old(RL(self))[k].stop < start))",
            ],
            decreases="len(RL(self))",
        ),
    },
    ghost_at={
        "return#0": {
            "self.gview": "amap(lambda x: old(self.gview)[x] or (start <= x < stop))",
            "self.gidx": "amap(lambda x: i if start <= x < stop else (old(self.gidx)[x] if old(self.gidx)[x] < i else old(self.gidx)[x] + 1))",
        },
        "return#1": {
            "self.gview": "amap(lambda x: old(self.gview)[x] or (old(start) <= x < stop_))",
            "self.gidx": "amap(lambda x: i if start <= x < stop else (old(self.gidx)[x] if old(self.gidx)[x] < i else old(self.gidx)[x] - (len(old(RL(self))) - len(RL(self)))))",
        },
        "self.__ranges.append(range(start, stop))": {
            "self.gview": "amap(lambda x: old(self.gview)[x] or (start <= x < stop))",
            "self.gidx": "amap(lambda x: len(RL(self)) if start <= x < stop else old(self.gidx)[x])",
        },
    },
    prop=["C10", "C12"],
)

R.contract(
    "RangeSet.shift",
    requires=["len(RL(self)) > 0"],
    modifies=_MOD,
    returns="range",
    ensures=[
        "result == old(RL(self))[0]",
        "forall(lambda x: self.gview[x] == (old(self.gview)[x] and not (result.start <= x < result.stop)))",
        "len(RL(self)) == len(old(RL(self))) - 1",
    ],
    ghost_exit={
        "self.gview": "amap(lambda x: old(self.gview)[x] and not (old(RL(self))[0].start <= x < old(RL(self))[0].stop))",
        "self.gidx": "amap(lambda x: old(self.gidx)[x] - 1)",
    },
    prop=["C10", "C12"],
)

R.contract(
    "RangeSet.bounds",
    requires=["len(RL(self)) > 0"],
    returns="range",
    ensures=[
        "result.start < result.stop",
        "forall(lambda x: implies(self.gview[x], result.start <= x < result.stop))",
        "self.gview[result.start] and self.gview[result.stop - 1]",
        "same(RL(self), old(RL(self)))",
    ],
    prop=["C10", "C12"],
)

R.contract(
    "RangeSet.__getitem__",
    params={"key": "int"},
    returns="range",
    raises={"IndexError": "not (-len(RL(self)) <= key < len(RL(self)))"},
    ensures=[
        "result == RL(self)[key if key >= 0 else key + len(RL(self))]",
        "same(RL(self), old(RL(self)))",
    ],
    prop=["C10", "C12"],
)

R.contract(
    "RangeSet.__len__",
    returns="int",
    ensures=["result == len(RL(self))", "same(RL(self), old(RL(self)))"],
    prop=["C10", "C12"],
)

# subtract: proved with a two-part loop invariant.
#   GENERAL part (no right remainder produced yet): the processed prefix [0, i) consists of original ranges at their
#   original index, possibly trimmed on the right at `start`, all ending at or before `start`; then p = n0 - len ranges
#   were popped (each covered by [start, stop)); the tail [i, len) is the original tail shifted by p.
#   DONE part (a right remainder was just produced by "trim left" or "split"): the final postcondition already holds
#   for the current list and the next iteration returns immediately (stop <= current range's start).
R.spec(
    """
def sub_view(rs, v0, start, stop, x):
    return v0[x] and not (start <= x < stop)

def sub_idx(rs, i0, n0, start, x):
    return ite(x < start, i0[x], i0[x] + (len(RL(rs)) - n0))

def sub_sound(rs, v0, start, stop):
    return forall(lambda k, x: implies(0 <= k < len(RL(rs)) and RL(rs)[k].start <= x < RL(rs)[k].stop, v0[x] and not (start <= x < stop)))

def sub_complete(rs, v0, i0, n0, start, stop):
    return forall(lambda x: implies(v0[x] and not (start <= x < stop),
            0 <= sub_idx(rs, i0, n0, start, x) < len(RL(rs)) and RL(rs)[sub_idx(rs, i0, n0, start, x)].start <= x < RL(rs)[sub_idx(rs, i0, n0, start, x)].stop))
"""
)

_SUB_G = [
    # G1/G2
    "0 <= i <= len(RL(self)) and len(RL(self)) <= len(old(RL(self)))",
    # G3 processed prefix: originals at their own index, possibly right-trimmed at `start`, all at or before `start`
    "forall(lambda k: implies(0 <= k < i, RL(self)[k].start == old(RL(self))[k].start and RL(self)[k].start < RL(self)[k].stop and RL(self)[k].stop <= start))",
    "forall(lambda k: implies(0 <= k < i, RL(self)[k].stop == old(RL(self))[k].stop or (RL(self)[k].stop == start and old(RL(self))[k].stop <= stop)))",
    # G4 popped block and shifted tail
    "forall(lambda k: implies(i <= k < len(RL(self)), RL(self)[k] == old(RL(self))[k + (len(old(RL(self))) - len(RL(self)))]))",
    "forall(lambda j: implies(i + (len(old(RL(self))) - len(RL(self))) <= j < len(old(RL(self))), old(RL(self))[j] == RL(self)[j - (len(old(RL(self))) - len(RL(self)))]))",
    "forall(lambda j: implies(i <= j < i + (len(old(RL(self))) - len(RL(self))), start <= old(RL(self))[j].start and old(RL(self))[j].stop <= stop))",
]

R.contract(
    "RangeSet.subtract",
    requires=["stop > start"],
    modifies=_MOD,
    let={"v0": "self.gview", "i0": "self.gidx", "n0": "len(RL(self))"},
    ensures=[
        "forall(lambda x: self.gview[x] == (old(self.gview)[x] and not (start <= x < stop)))",
    ],
    loops={
        0: dict(
            invariant=[
                "start == old(start) and stop == old(stop) and stop > start",
                "same(self.gview, old(self.gview)) and same(self.gidx, old(self.gidx))",
                # every phase: the list stays well formed, ranges only shrink, the processed prefix avoids [start, stop)
                "0 <= i <= len(RL(self))",
                "rs_nonempty_ranges(self)",
                "rs_sorted(self)",
                "forall(lambda k, x: implies(0 <= k < len(RL(self)) and RL(self)[k].start <= x < RL(self)[k].stop, v0[x]))",
                "forall(lambda k: implies(0 <= k < i, RL(self)[k].stop <= start or RL(self)[k].start >= stop))",
            ] + ["implies(not g_done, %s)" % c for c in _SUB_G] + [
                "implies(g_done, implies(i < len(RL(self)), stop <= RL(self)[i].start))",
                "implies(g_done, sub_complete(self, v0, i0, n0, start, stop))",
            ],
            decreases="ite(g_done, 0, 2 * len(RL(self)) - i + 2)",
            modifies=["g_done"],
        )
    },
    ghost_at={
        "i = 0": {"g_done": "False"},
        "self.__ranges[i] = range(stop, r.stop)": {"g_done": "True"},
        "self.__ranges.insert(i + 1, range(stop, r.stop))": {"g_done": "True"},
        "return#0": {
            "self.gidx": "amap(lambda x: ite(x < start, i0[x], i0[x] + (len(RL(self)) - n0)))",
            "self.gview": "amap(lambda x: v0[x] and not (start <= x < stop))",
        },
    },
    ghost_exit={
        "self.gidx": "amap(lambda x: ite(x < start, i0[x], i0[x] + (len(RL(self)) - n0)))",
        "self.gview": "amap(lambda x: v0[x] and not (start <= x < stop))",
    },
    prop=["C10", "C06", "C12", "C01"],
)

# construction of an EMPTY set (the only form the library uses outside tests)
R.contract(
    "RangeSet.__init__",
    params={"ranges": "list[range]"},
    requires=["len(ranges) == 0"],
    ensures=["len(RL(self)) == 0", "forall(lambda x: not self.gview[x])"],
    loops={0: dict(invariant=["0 <= _i0 <= len(ranges)", "len(RL(self)) == 0"])},
    ghost_exit={"self.gview": "amap(lambda x: False)", "self.gidx": "amap(lambda x: 0)"},
    prop=["C10"],
)
