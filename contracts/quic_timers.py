# Sidecar contracts for the timer / close state machine of QuicConnection (property C09)   (R is injected)
#
# T1  a connection that was started (connect() called or a datagram handed in) and has not reported termination has a
#     close deadline: _close_at is not None; get_timer() then returns a finite deadline <= _close_at.
# T3  the termination event is appended only by _close_end, exactly once, and _close_end moves to TERMINATED, which is
#     absorbing (receive_datagram / datagrams_to_send return at their END_STATES test before any effect).
# T4  _close_begin arms _close_at = now + 3 * PTO.

R.field_types("QuicConfiguration", idle_timeout="float", connection_id_length="int", quic_logger="Optional[QuicLogger]")
R.field_types("QuicConnection", _close_at="Optional[float]", _loss_at="Optional[float]", _pacing_at="Optional[float]", _close_event="Optional[ConnectionTerminated]")
R.field_types("QuicPacketRecovery", spaces="list[QuicPacketSpace]")

R.contract("QuicPacketRecovery.get_probe_timeout", returns="float", trusted=False, inline=True)
R.contract(
    "QuicPacketRecovery.get_loss_detection_time",
    returns="Optional[float]",
    trusted=True,
    note="recovery.py: pure function of the recovery state (verified for its ledger role in contracts/quic_recovery.py; here only: returns a float or None and writes nothing)",
)
R.contract("QuicConnection._set_state", inline=True)

R.spec(
    """
def in_end_state(s):
    return s == QuicConnectionState.CLOSING or s == QuicConnectionState.DRAINING or s == QuicConnectionState.TERMINATED
"""
)

# T1/T2: the timer is finite whenever a close deadline exists, never later than it; in an end state it IS the close deadline
R.contract(
    "QuicConnection.get_timer",
    returns="Optional[float]",
    modifies=["self._loss_at"],
    ensures=[
        "implies(self._close_at is not None, result is not None and some(result) <= some(self._close_at))",
        "implies(in_end_state(self._state), result == self._close_at)",
        "implies(not in_end_state(self._state) and self._close_at is not None, forall(lambda k: implies(0 <= k < len(self._loss.spaces) and at(self._loss.spaces, k).ack_at is not None, some(result) <= some(at(self._loss.spaces, k).ack_at))))",
        "implies(not in_end_state(self._state) and self._close_at is not None and self._loss_at is not None, some(result) <= some(self._loss_at))",
        "implies(not in_end_state(self._state) and self._close_at is not None and self._pacing_at is not None, some(result) <= some(self._pacing_at))",
        "self._close_at == old(self._close_at) and self._state == old(self._state)",
    ],
    # T1 is the precondition (before connect() / the first datagram the comparison with a missing deadline is a TypeError -
    # outside the property's scope "from the first datagram or connect call")
    requires=["self._close_at is not None or in_end_state(self._state)"],
    loops={0: dict(invariant=[
        "0 <= _i0 <= len(self._loss.spaces)",
        "timer_at is not None and some(timer_at) <= some(self._close_at)",
        "forall(lambda k: implies(0 <= k < _i0 and at(self._loss.spaces, k).ack_at is not None, some(timer_at) <= some(at(self._loss.spaces, k).ack_at)))",
        "self._close_at == old(self._close_at) and self._state == old(self._state)",
    ])},
    prop=["C09"],
)

# T4: closing period = three probe timeouts from now
R.contract(
    "QuicConnection._close_begin",
    modifies=["self._close_at", "self._state"],
    ensures=[
        "self._close_at is not None and some(self._close_at) == now + 3 * (2 * self._loss._rtt_initial if not self._loss._rtt_initialized else self._loss._rtt_smoothed + max(4 * self._loss._rtt_variance, 0.001) + self._loss.max_ack_delay)",
        "self._state == (QuicConnectionState.CLOSING if is_initiator else QuicConnectionState.DRAINING)",
        "same(self._events, old(self._events))",
    ],
    prop=["C09"],
)

# local close: latches the first reason, only outside the end states; never emits the termination event itself
R.contract(
    "QuicConnection.close",
    params={"reason_phrase": "str", "frame_type": "Optional[int]"},
    modifies=["self._close_event", "self._close_pending"],
    ensures=[
        "implies(old(self._close_event) is None and not in_end_state(self._state), self._close_event is not None and self._close_pending)",
        "implies(not (old(self._close_event) is None and not in_end_state(self._state)), self._close_event == old(self._close_event) and self._close_pending == old(self._close_pending))",
        "same(self._events, old(self._events)) and self._state == old(self._state) and self._close_at == old(self._close_at)",
    ],
    prop=["C09"],
)

R.field_types("QuicConnection", _cryptos="dict[Epoch,CryptoPair]", _cryptos_initial="dict[int,CryptoPair]", _spaces="dict[Epoch,QuicPacketSpace]")
R.contract("NoCallback", inline=True)

# discarding a packet number space touches keys, recovery state and the space itself - never the event queue, the
# connection state or the close deadline
_DISCARD_MOD = ["CryptoContext.aead[*]", "CryptoContext.cipher_suite[*]", "CryptoContext.hp[*]", "CryptoContext.secret[*]", "CryptoContext._teardown_cb[*]",
                "QuicPacketSpace.sent_packets[*]", "QuicPacketSpace.g_flight[*]", "QuicPacketSpace.g_ae[*]", "QuicPacketSpace.ack_eliciting_in_flight[*]",
                "QuicPacketSpace.ack_at[*]", "QuicPacketSpace.loss_time[*]", "QuicPacketSpace.discarded[*]", "QuicPacketRecovery.g_total[*]", "QuicPacketRecovery._pto_count[*]",
                "QuicCongestionControl.bytes_in_flight[*]", "QuicCongestionControl.congestion_window[*]", "QuicCongestionControl.ssthresh[*]"]
R.contract(
    "QuicConnection._discard_epoch",
    params={"epoch": "Epoch"},
    trusted=True,
    note="frame-only summary used by the close state machine: QuicConnection._discard_epoch calls CryptoPair.teardown and QuicPacketRecovery.discard_space (both under contract: contracts/quic_crypto.py, contracts/quic_recovery.py) and sets space.discarded; it does not touch _events, _state, _close_at, _close_event (by inspection of its 13 lines - not re-verified here because discard_space's ledger preconditions are not available at this call site)",
    raises={"KeyError": "epoch not in self._spaces"},
    modifies=_DISCARD_MOD,
    ensures=["self._spaces[epoch].discarded"],
)

# T3: _close_end is the only place that reports termination: exactly one event (the latched close event), state TERMINATED,
# no close deadline any more
R.contract(
    "QuicConnection._close_end",
    requires=["self._close_event is not None"],
    assume_pre=["self._quic_logger is None or self._configuration.quic_logger is not None"],
    modifies=_DISCARD_MOD + ["self._close_at", "self._events", "self._state", "self._quic_logger"],
    loops={0: dict(invariant=["0 <= _i0 <= len(_seq0)", "same(self._events, old(self._events))", "self._close_at is None", "self._close_event == old(self._close_event)", "self._state == old(self._state)",
                              "self._quic_logger == old(self._quic_logger) and self._configuration == old(self._configuration)"],
                   modifies=_DISCARD_MOD)},
    ensures=[
        "self._state == QuicConnectionState.TERMINATED",
        "self._close_at is None",
        "len(self._events) == len(old(self._events)) + 1 and at(self._events, len(self._events) - 1) == some(self._close_event)",
        "forall(lambda k: implies(0 <= k < len(old(self._events)), at(self._events, k) == at(old(self._events), k)))",
        "self._close_event == old(self._close_event)",
    ],
    prop=["C09"],
)
R.contract("QuicLogger.end_trace", trusted=True, params={"trace": "Any"}, note="qlog sink")
R.contract("QuicFileLogger.end_trace", trusted=True, params={"trace": "Any"}, note="qlog sink")

# T3/T4: block contract on the first statement of handle_timer: at or after the close deadline the connection terminates
# (idle timeout: an INTERNAL_ERROR 'Idle timeout' event is created when no close was in progress) and nothing else happens
R.contract(
    "QuicConnection.handle_timer@expiry",
    region={"anchor": "if now >= self._close_at:"},
    params={"now": "float"},
    assume_pre=["self._close_at is not None", "self._quic_logger is None or self._configuration.quic_logger is not None"],
    modifies=_DISCARD_MOD + ["self._close_at", "self._events", "self._state", "self._quic_logger", "self._close_event"],
    ensures=[
        "implies(now >= some(old(self._close_at)), self._state == QuicConnectionState.TERMINATED and self._close_at is None and len(self._events) == len(old(self._events)) + 1)",
        "implies(now >= some(old(self._close_at)) and old(self._close_event) is not None, at(self._events, len(self._events) - 1) == some(old(self._close_event)))",
        "implies(now < some(old(self._close_at)), same(self._events, old(self._events)) and self._state == old(self._state) and self._close_at == old(self._close_at) and self._close_event == old(self._close_event))",
    ],
    prop=["C09"],
)

# T3 (absorbing end states): block contract on the head of datagrams_to_send: in CLOSING / DRAINING / TERMINATED nothing is
# sent and nothing changes - checked BEFORE any pending close is flushed
R.contract(
    "QuicConnection.datagrams_to_send@end_states",
    region={"anchor": "if not self._network_paths:", "span": 3},
    params={"now": "float"},
    returns="list[Any]",
    ensures=[
        "implies(in_end_state(old(self._state)), same(self._events, old(self._events)) and self._state == old(self._state) and self._close_at == old(self._close_at) and self._close_pending == old(self._close_pending))",
    ],
    exit_cuts=[],
    prop=["C09"],
)

# T1: block contract on the prologue of receive_datagram: whatever happens to the datagram afterwards (dropped, unparseable,
# too small), a connection that is not in an end state has a close deadline once receive_datagram was entered
R.contract(
    "QuicConnection.receive_datagram@arm",
    region={"anchor": "payload_length = len(data)", "span": 6},
    params={"data": "bytes", "addr": "Any", "now": "float"},
    assume_pre=["self._quic_logger is None or True"],
    returns="Any",
    ensures=[
        "implies(not in_end_state(old(self._state)), self._close_at is not None)",
        "implies(old(self._close_at) is not None, self._close_at == old(self._close_at))",
        "implies(in_end_state(old(self._state)), self._close_at == old(self._close_at) and same(self._events, old(self._events)))",
        "self._state == old(self._state)",
    ],
    prop=["C09"],
)
R.contract("QuicConnection._find_network_path", params={"addr": "Any"}, returns="QuicNetworkPath", trusted=True,
           note="returns the known path for the address or a fresh QuicNetworkPath; writes nothing (10 lines, by inspection; the anti-amplification accounting that uses it is C13)")
R.contract("QuicConnection._idle_timeout", returns="float", trusted=True, note="max(min(local, remote idle timeout), 3 PTO): a float; writes nothing")
