#!/bin/bash
# Run one or more property checks against a scratch copy of /repo/src/aioquic with a seeded patch applied
# (developer tool).  usage: ./seedtest.sh <patch.diff> <Cxx> [<Cxx>...]      env: TIER=quick|thorough
# The copy lives under /var/tmp and is removed afterwards; /repo is never touched.
cd "$(dirname "$0")"
patch="$1"; shift
d=$(mktemp -d /var/tmp/verif-seed.XXXXXX)
mkdir -p "$d/src" && cp -r /repo/src/aioquic "$d/src/aioquic"
if ! (cd "$d" && patch -s -p1 < "$patch"); then echo "SEEDTEST: patch did not apply"; rm -rf "$d"; exit 9; fi
rc_all=0
for prop in "$@"; do
  out=$(AIOQUIC_SRC="$d/src/aioquic" VERIF_EVIDENCE_DIR="$d/evidence" ./check "$prop" --tier "${TIER:-quick}" 2>&1); rc=$?
  echo "SEEDTEST $(basename $(dirname $patch))/$(basename $patch) vs $prop: rc=$rc"
  echo "$out" | grep -E "VIOLATION|KNOWN|undecided|crash|held|violation" | head -8
  if [ -n "$KEEP_REPLAY" ]; then mkdir -p "$KEEP_REPLAY"; cp -r "$d/replays/." "$KEEP_REPLAY/" 2>/dev/null; fi
  [ $rc -ne 0 ] && rc_all=$rc
done
rm -rf "$d"
exit $rc_all
