#!/bin/bash
# Confirm an independently written seeded defect: in a fresh scratch worktree of /repo (outside /repo and /verif)
#  1. pristine tree: demo passes   2. patch applies   3. patched tree: full unedited suite passes   4. demo fails
# usage: tools/confirm_seed.sh <seed-dir with patch.diff demo.py meta.json> <name>   -> prints one CONFIRMED/REJECTED line
src="$1"; name="$2"
wt=$(mktemp -d /tmp/confirm.XXXXXX)
git -C /repo worktree add --detach "$wt" HEAD >/dev/null 2>&1 || { echo "REJECTED $name: worktree"; exit 1; }
cleanup() { git -C /repo worktree remove --force "$wt" >/dev/null 2>&1; rm -rf "$wt"; }
trap cleanup EXIT
cd "$wt" && /venv/bin/python setup.py build_ext --inplace >/dev/null 2>&1
cp "$src/demo.py" "$wt/demo_seed.py"
PYTHONPATH="$wt/src" timeout 900 /venv/bin/python demo_seed.py >"$wt/demo0.log" 2>&1; r0=$?
git apply "$src/patch.diff" || { echo "REJECTED $name: patch does not apply to HEAD"; exit 1; }
if git diff --name-only | grep -q '\.c$'; then /venv/bin/python setup.py build_ext --inplace >/dev/null 2>&1; fi
PYTHONPATH="$wt/src" timeout 1500 /venv/bin/python -m pytest -q -p no:cacheprovider --timeout=900 tests >"$wt/suite.log" 2>&1; rs=$?
suite=$(tail -1 "$wt/suite.log")
PYTHONPATH="$wt/src" timeout 900 /venv/bin/python demo_seed.py >"$wt/demo1.log" 2>&1; r1=$?
if [ $r0 -eq 0 ] && [ $rs -eq 0 ] && [ $r1 -ne 0 ]; then
  echo "CONFIRMED $name: demo pristine rc=0, suite with patch: $suite, demo with patch rc=$r1: $(grep -m1 -i fail "$wt/demo1.log" | cut -c1-160)"
else
  echo "REJECTED $name: demo pristine rc=$r0, suite rc=$rs ($suite), demo patched rc=$r1"
fi
