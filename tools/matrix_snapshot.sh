#!/bin/bash
# Run tools/seedmatrix.py in a snapshot (detached git worktree) of the CURRENT commit of /verif, in N parallel lanes, so that
# edits made in /verif meanwhile do not invalidate the baseline digest; then copy the "checks"/"caught_by" results back
# into /verif/seeded/*/meta.json.   usage: tools/matrix_snapshot.sh [lanes] [seed ids...]
cd "$(dirname "$0")/.."
ROOT=$(pwd)
lanes=${1:-2}; shift
snap=/var/tmp/verif-matrix-snap
git worktree remove --force $snap >/dev/null 2>&1; rm -rf $snap
git worktree add -q --detach $snap HEAD || exit 1
ids=("$@")
if [ ${#ids[@]} -eq 0 ]; then ids=($(ls seeded | grep '^C[0-9]*-[0-9]*$')); fi
for ((l=0; l<lanes; l++)); do
  mine=()
  for ((i=l; i<${#ids[@]}; i+=lanes)); do mine+=("${ids[$i]}"); done
  (cd $snap && python3 tools/seedmatrix.py "${mine[@]}" > /var/tmp/verif-matrix-lane$l.log 2>&1) &
done
wait
python3 - "$snap" "$ROOT" <<'PY'
import glob, json, os, sys
snap, root = sys.argv[1], sys.argv[2]
n = 0
for p in sorted(glob.glob(os.path.join(snap, "seeded", "C*-*", "meta.json"))):
    sid = os.path.basename(os.path.dirname(p))
    src = json.load(open(p))
    dst_p = os.path.join(root, "seeded", sid, "meta.json")
    if "checks" not in src or not os.path.exists(dst_p):
        continue
    dst = json.load(open(dst_p))
    for k in ("checks", "caught_by", "what_i_ran"):
        if k in src:
            dst[k] = src[k]
    dst["matrix_commit"] = os.popen("git -C %s rev-parse --short HEAD" % snap).read().strip()
    json.dump(dst, open(dst_p, "w"), indent=1)
    n += 1
print("copied results of %d seeds" % n)
PY
git worktree remove --force $snap >/dev/null 2>&1
cat /var/tmp/verif-matrix-lane*.log | grep "caught by" | sort
