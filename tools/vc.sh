#!/bin/bash
# developer tool: verify several functions in parallel and print a summary per function
# usage: tools/vc.sh <qual> [<qual>...]     (quals with ".c::" go to cwp)
cd "$(dirname "$0")/.."
printf '%s\n' "$@" | xargs -P 14 -I{} bash -c 'q="{}"; if [[ "$q" == *".c::"* ]]; then m=engine.cwp.cli; else m=engine.pyvc.cli; fi; out=$(python3-vt -m $m "$q" 2>&1); echo "$out" | grep "^==" | cut -c1-300; echo "$out" | grep -v "^==" | grep -v "^     model" | cut -c1-230 | sort | uniq -c | sort -rn | head -${VC_LINES:-12}'
