"""Native reproductions for C15 candidates on the UNCHANGED /repo (run: /venv/bin/python tools/repro_c15_findings.py)."""
from aioquic.buffer import encode_uint_var
from aioquic.h3.connection import ErrorCode, H3Connection, encode_frame
from aioquic.h3.events import DataReceived, HeadersReceived
from aioquic.quic.configuration import QuicConfiguration
from aioquic.quic.events import StreamDataReceived


class FakeQuic:
    def __init__(self, is_client):
        self.configuration = QuicConfiguration(is_client=is_client)
        self.closed = None
        self.queue = []
        self._quic_logger = None
        self._remote_max_datagram_frame_size = None
        self._bidi = 0 if is_client else 1
        self._uni = 2 if is_client else 3

    def close(self, error_code, reason_phrase=""):
        self.closed = (error_code, reason_phrase)

    def get_next_available_stream_id(self, is_unidirectional=False):
        if is_unidirectional:
            sid, self._uni = self._uni, self._uni + 4
        else:
            sid, self._bidi = self._bidi, self._bidi + 4
        return sid

    def send_stream_data(self, stream_id, data, end_stream=False):
        self.queue.append(StreamDataReceived(data=data, end_stream=end_stream, stream_id=stream_id))


def pair():
    return H3Connection(FakeQuic(True)), H3Connection(FakeQuic(False))


def deliver(a, b):
    ev = []
    while a._quic.queue:
        ev.extend(b.handle_event(a._quic.queue.pop(0)))
    return ev


REQ = [(b":method", b"POST"), (b":scheme", b"https"), (b":authority", b"localhost"), (b":path", b"/")]

# (A) two different content-length fields: the last one wins, the block is delivered
c, s = pair()
sid = c._quic.get_next_available_stream_id()
c.send_headers(sid, REQ + [(b"content-length", b"5"), (b"content-length", b"6")])
c.send_data(sid, b"sixsix", end_stream=True)
ev = deliver(c, s)
print("A: closed=%r" % (s._quic.closed,))
for e in ev:
    print("   ", e)

# (B) stream ended by a frame of unknown type (GREASE 0x21) after a short body: content-length 10, 5 bytes delivered
c, s = pair()
sid = c._quic.get_next_available_stream_id()
c.send_headers(sid, REQ + [(b"content-length", b"10")])
c.send_data(sid, b"hello", end_stream=False)
c._quic.send_stream_data(sid, encode_frame(0x21, b"xx"), end_stream=True)
ev = deliver(c, s)
print("B: closed=%r" % (s._quic.closed,))
for e in ev:
    print("   ", e)

# (C) spellings int() accepts
for sp in (b"+5", b"0_5", b"\x0b5\x0c", b"-0"):
    c, s = pair()
    sid = c._quic.get_next_available_stream_id()
    c.send_headers(sid, REQ + [(b"content-length", sp)])
    c.send_data(sid, b"hello" if sp != b"-0" else b"", end_stream=True)
    ev = deliver(c, s)
    print("C: content-length=%r closed=%r events=%d" % (sp, s._quic.closed, len(ev)))
