"""developer tool: verify ONE function, generating the VCs once and solving them in N forked workers.
usage: python3-vt tools/vcpar.py <qual> [nworkers] [timeout_ms] [-v]     (AIOQUIC_SRC honoured like the CLI)"""
import collections
import glob
import os
import sys
import time

ROOT = os.path.dirname(os.path.dirname(os.path.abspath(__file__)))
sys.path.insert(0, ROOT)
from engine.pyvc.registry import load_sidecars  # noqa: E402
from engine.pyvc.source import Index  # noqa: E402
from engine.pyvc.verify import solve, verify_function  # noqa: E402


def main():
    args = [a for a in sys.argv[1:] if not a.startswith("-")]
    qual = args[0]
    nw = int(args[1]) if len(args) > 1 else 14
    tmo = int(args[2]) if len(args) > 2 else 10000
    reg = load_sidecars(sorted(glob.glob(os.path.join(ROOT, "contracts", "*.py"))))
    idx = Index(extern=reg.extern_modules)
    t0 = time.time()
    r = verify_function(idx, reg, qual)
    print("== %s paths=%d obligations=%d gen=%.1fs errors=%s outcomes=%s" % (qual, r.paths, len(r.obligations), time.time() - t0, r.errors, r.outcomes), flush=True)
    obs = r.obligations
    pipes = []
    for w in range(nw):
        rd, wr = os.pipe()
        pid = os.fork()
        if pid == 0:
            os.close(rd)
            out = []
            for i, ob in enumerate(obs):
                if i % nw != w:
                    continue
                v = solve(ob, timeout_ms=tmo)
                if v.status != "discharged":
                    mv = ""
                    if v.model is not None:
                        try:
                            mv = str({k: v.model.eval(x.t, model_completion=True) for k, x in ob.model_vars.items()})
                        except Exception:  # noqa
                            mv = "?"
                    out.append("%s\t%s\t%s\t%s\t%s" % (v.status, ob.name, ob.note[:110].replace("\n", " "), list(ob.path), mv))
            os.write(wr, ("\n".join(out)).encode())
            os.close(wr)
            os._exit(0)
        os.close(wr)
        pipes.append((pid, rd))
    lines = []
    for pid, rd in pipes:
        buf = b""
        while True:
            b = os.read(rd, 65536)
            if not b:
                break
            buf += b
        os.waitpid(pid, 0)
        lines += [ln for ln in buf.decode().split("\n") if ln]
    c = collections.Counter((ln.split("\t")[0], ln.split("\t")[1], ln.split("\t")[2]) for ln in lines)
    for (st, name, note), n in sorted(c.items(), key=lambda kv: -kv[1]):
        print("%4d %-10s %-70s %s" % (n, st, name, note))
    if "-v" in sys.argv:
        for ln in lines[:60]:
            print(ln)
    print("total %.1fs  not-discharged=%d of %d" % (time.time() - t0, len(lines), len(obs)))


main()
