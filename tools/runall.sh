#!/bin/bash
# run every claimed check (quick tier) and print one summary line each
cd "$(dirname "$0")/.."
for p in $(python3-vt -c "import sys; sys.path.insert(0,'.'); from engine import props; print(' '.join(sorted(props.PROPS)))"); do
  if [ $# -gt 0 ] && [[ ! " $* " =~ " $p " ]]; then continue; fi
  out=$(./check $p --tier ${TIER:-quick} 2>&1); rc=$?
  echo "== $p rc=$rc :: $(echo "$out" | grep -E "^$p (quick|thorough)")"
  echo "$out" | grep -E "VIOLATION|KNOWN|undecided:|crash" | cut -c1-330 | head -8
done
