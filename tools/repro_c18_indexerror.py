# Reproduction: NEW_CONNECTION_ID repeating an already consumed-and-retired sequence number with
# retire_prior_to equal to it -> _consume_peer_cid() pops from an empty list (IndexError escapes the handler).
import sys, time
sys.path.insert(0, "/repo/tests")
from aioquic.buffer import Buffer
from aioquic.quic.configuration import QuicConfiguration
from aioquic.quic.connection import QuicConnection, QuicReceiveContext
from aioquic.quic.packet import QuicFrameType
from aioquic import tls

def ncid(seq, rpt, cid):
    buf = Buffer(capacity=100)
    buf.push_uint_var(seq); buf.push_uint_var(rpt); buf.push_uint8(len(cid)); buf.push_bytes(cid); buf.push_bytes(bytes(16)); buf.seek(0)
    return buf

client = QuicConnection(configuration=QuicConfiguration(is_client=True))
client.connect(("1.2.3.4", 4433), now=0.0)
ctx = QuicReceiveContext(epoch=tls.Epoch.ONE_RTT, host_cid=client.host_cid, network_path=client._network_paths[0], quic_logger_frames=[], time=0.0, version=None)
client._peer_cid.sequence_number = 0   # as after the first server packet
# peer issues seq 5 then seq 1 (reordered packets), both retire_prior_to=0
client._handle_new_connection_id_frame(ctx, QuicFrameType.NEW_CONNECTION_ID, ncid(5, 0, b"\x05" * 8))
client._handle_new_connection_id_frame(ctx, QuicFrameType.NEW_CONNECTION_ID, ncid(1, 0, b"\x01" * 8))
client.change_connection_id()   # now using seq 5, retired 0
client.change_connection_id()   # now using seq 1, retired 5
print("current", client._peer_cid.sequence_number, "available", [c.sequence_number for c in client._peer_cid_available], "retire queue", client._retire_connection_ids)
try:
    client._handle_new_connection_id_frame(ctx, QuicFrameType.NEW_CONNECTION_ID, ncid(5, 5, b"\x05" * 8))
    print("no exception; current", client._peer_cid.sequence_number)
except Exception as e:
    print("EXCEPTION", type(e).__name__, e)
    print("state after: current", client._peer_cid.sequence_number, "rpt", client._peer_retire_prior_to, "retire queue", client._retire_connection_ids)
