#!/bin/bash
# kill checks: one edit per scratch copy, expect refuted (or at least not fully discharged)
cd "$(dirname "$0")/.."
RC=quic/recovery.py::QuicPacketRecovery.; CU=quic/congestion/cubic.py::CubicCongestionControl.; RE=quic/congestion/reno.py::RenoCongestionControl.; RM=quic/congestion/base.py::QuicRttMonitor.
kill(){ name=$1; file=$2; expr=$3; shift 3; d=$(mktemp -d /var/tmp/c08kill.XXXXXX); mkdir -p $d/src; cp -r /repo/src/aioquic $d/src/; sed -i "$expr" $d/src/aioquic/$file
  if diff -q /repo/src/aioquic/$file $d/src/aioquic/$file >/dev/null; then echo "KILL $name: MUTATION DID NOT APPLY"; rm -rf $d; return; fi
  out=$(for q in "$@"; do AIOQUIC_SRC=$d/src/aioquic python3-vt -m engine.pyvc.cli $q 2>&1; done); rm -rf $d
  r=$(echo "$out" | grep -c "^  refuted"); u=$(echo "$out" | grep -c "^  undecided"); e=$(echo "$out" | grep "^==" | grep -vc "errors=\[\]")
  first=$(echo "$out" | grep "^  refuted" | head -1 | awk '{print $2}')
  if [ $r -gt 0 ]; then v=KILLED-refuted; elif [ $u -gt 0 ] || [ $e -gt 0 ]; then v=not-discharged; else v=SURVIVED; fi
  echo "KILL $name [$*]: $v refuted=$r undecided=$u errors=$e first=$first"; }
kill cubic_acked_target quic/congestion/cubic.py '117s/target = self.congestion_window/target = W_cubic/' ${CU}on_packet_acked &
kill cubic_acked_bif quic/congestion/cubic.py '70s/-= packet.sent_bytes/-= 0/' ${CU}on_packet_acked &
kill cubic_sent_bif quic/congestion/cubic.py '149s/+= packet.sent_bytes/= packet.sent_bytes/' ${CU}on_packet_sent &
kill cubic_expired quic/congestion/cubic.py '158s/-=/+=/' ${CU}on_packets_expired &
kill cubic_lost_floor quic/congestion/cubic.py 's/K_MINIMUM_WINDOW \* self._max_datagram_size/self._max_datagram_size/g' ${CU}on_packets_lost &
kill cubic_lost_bif quic/congestion/cubic.py '163s/-= packet.sent_bytes/-= 1/' ${CU}on_packets_lost &
kill cubic_init_noreset quic/congestion/cubic.py '42s/self.reset()/pass/' ${CU}__init__ &
kill cubic_rtt quic/congestion/cubic.py '202s/self.ssthresh = self.congestion_window/self.congestion_window = self._max_datagram_size/' ${CU}on_rtt_measurement &
wait
kill reno_acked_bif quic/congestion/reno.py '27s/.*/        pass/' ${RE}on_packet_acked &
kill reno_sent quic/congestion/reno.py '45s/+=/-=/' ${RE}on_packet_sent &
kill reno_expired quic/congestion/reno.py '49s/-= packet.sent_bytes/-= packet.sent_bytes + 1/' ${RE}on_packets_expired &
kill reno_lost_floor quic/congestion/reno.py 's/K_MINIMUM_WINDOW \* self._max_datagram_size/self._max_datagram_size/' ${RE}on_packets_lost &
kill reno_rtt quic/congestion/reno.py '74s/self.ssthresh = self.congestion_window/self.bytes_in_flight = 0/' ${RE}on_rtt_measurement &
kill rttmon_idx quic/congestion/base.py '74s/>=/>/' ${RM}add_rtt ${RM}is_rtt_increasing &
kill contains quic/rangeset.py '82s/return True/return False/' quic/rangeset.py::RangeSet.__contains__ &
kill pacer_div quic/recovery.py '65s/max(smoothed_rtt, K_MICRO_SECOND)/smoothed_rtt/' quic/recovery.py::QuicPacketPacer.update_rate &
wait
kill sent_noguard quic/recovery.py '271s/if packet.in_flight:/if True:/' ${RC}on_packet_sent &
kill sent_ae quic/recovery.py '270s/+= 1/+= 2/' ${RC}on_packet_sent &
kill discard_noclear quic/recovery.py '136s/space.sent_packets.clear()/pass/' ${RC}discard_space &
kill discard_filter quic/recovery.py '134s/lambda x: x.in_flight/lambda x: x.is_ack_eliciting/' ${RC}discard_space &
kill discard_ae quic/recovery.py '139s/= 0/= 1/' ${RC}discard_space &
kill resched_space quic/recovery.py '292s/space=space/space=self.spaces[0]/' ${RC}reschedule_data &
kill timeout_wrongspace quic/recovery.py '261s/space=loss_space/space=QuicPacketSpace()/' ${RC}on_loss_detection_timeout &
kill lossspace quic/recovery.py '333s/loss_space = space/loss_space = QuicPacketSpace()/' ${RC}_get_loss_space &
# on_ack_received / _on_packets_lost / _detect_loss (slow: ~1-3 min each, counter-models are hard to find under the quantified invariants,
# several of these end `not-discharged` (undecided obligations) rather than refuted)
kill ack_cc_always quic/recovery.py '201s/if packet.in_flight:/if True:/' ${RC}on_ack_received &
kill ack_everything quic/recovery.py '195s/if packet_number in ack_rangeset:/if True:/' ${RC}on_ack_received &
kill ack_no_ae quic/recovery.py '200d' ${RC}on_ack_received &
kill lost_only_inflight_deleted quic/recovery.py '358d;360a\                del space.sent_packets[packet.packet_number]' ${RC}_on_packets_lost &
kill lost_no_ae quic/recovery.py '363,364d' ${RC}_on_packets_lost &
kill lost_wrong_cc_list quic/recovery.py '360s/if packet.in_flight:/if not packet.in_flight:/' ${RC}_on_packets_lost &
kill detect_double quic/recovery.py '319s/.*/                lost_packets.append(packet); lost_packets.append(packet)/' ${RC}_detect_loss &
kill detect_nobreak quic/recovery.py '316s/break/pass/' ${RC}_detect_loss &
wait
