"""Regenerate the generated sections of DESIGN.md (between <!-- AUTO:x:BEGIN --> / <!-- AUTO:x:END --> markers) from
seeded/*/meta.json (written by tools/seedmatrix.py) and evidence/*.json (written by ./check).
usage: python3-vt tools/mkdesign.py"""
import glob
import io
import json
import os
import re
import subprocess
import sys

ROOT = os.path.dirname(os.path.dirname(os.path.abspath(__file__)))
sys.path.insert(0, ROOT)


def seeds_section():
    out = io.StringIO()
    rows = []
    for d in sorted(glob.glob(os.path.join(ROOT, "seeded", "C*-*"))):
        m = json.load(open(os.path.join(d, "meta.json")))
        rows.append((os.path.basename(d), m))
    n = len(rows)
    caught = [r for r in rows if r[1].get("caught_by")]
    run = [r for r in rows if r[1].get("checks")]
    out.write("`seeded/` holds %d changes written by independent sub-agents that saw only the text of one property and a scratch\n" % n)
    out.write("worktree of /repo (nothing from /verif); each was confirmed by `tools/confirm_seed.sh` in a fresh worktree (demo passes on the\n")
    out.write("pristine tree, the unedited suite passes with the patch, the demo fails with the patch). `tools/seedmatrix.py` runs the\n")
    out.write("check of the seed's property (and of related properties) against a scratch copy of the sources with the patch applied\n")
    out.write("(`./seedtest.sh`; /repo is never touched). Of the %d seeds run, **%d are reported as a violation (exit 1)** by at least one\n" % (len(run), len(caught)))
    out.write("check; the others are listed with the reason. *refuted* = the solver produced a counter-model of a named obligation\n")
    out.write("(validated on an untainted path); *no longer discharged* = an obligation that was discharged for the baseline text of the\n")
    out.write("function is left open by every back end for the changed text (baseline rule; no counter-model); *input replayed natively* =\n")
    out.write("the failing input was reproduced on the real code by `engine/native` (otherwise the VIOLATION line ends in\n")
    out.write("`no-failing-input-found`: there is a native replay generator only for the stream halves, the range set, the codecs, the\n")
    out.write("congestion controller, the header validators and the server routing table).\n\n")
    out.write("| seed | what was changed | needs to manifest | outcome per check | first failing obligations |\n|---|---|---|---|---|\n")
    for sid, m in rows:
        fn = m.get("function") or ", ".join(m.get("files") or [])
        need = (m.get("needs_to_manifest") or "")
        ch = m.get("checks") or {}
        outc = []
        obl = []
        for p, v in ch.items():
            rc = v.get("rc")
            lab = {0: "held (missed)", 1: "violation", 2: "undecided", 3: "crash", 9: "patch does not apply"}.get(rc, "rc=%s" % rc)
            if rc == 1:
                obs = v.get("obligations") or []
                kinds = []
                if any("[refuted" in o for o in obs):
                    kinds.append("refuted")
                if any("[no longer discharged" in o for o in obs):
                    kinds.append("no longer discharged")
                if v.get("violations", 0) > v.get("without_replayed_input", 0):
                    kinds.append("input replayed natively")
                lab = "violation (%s)" % ", ".join(kinds or ["see replay"])
            outc.append("%s: %s" % (p, lab))
            for o in [o for o in (v.get("obligations") or []) if not o.startswith("None")][:3]:
                obl.append(o)
            if any(o.startswith("None") for o in (v.get("obligations") or [])):
                obl.append("bounded stand-in (failing input replayed)")
        if not ch:
            outc = ["(not run)"]
        cell = lambda t, k: str(t).replace("|", "/").replace("\n", " ")[:k]
        out.write("| %s | %s | %s | %s | %s |\n" % (sid, cell(fn, 110), cell(need, 160), "; ".join(outc), cell("; ".join(obl), 200)))
    missed = [sid for sid, m in rows if m.get("checks") and not m.get("caught_by")]
    if missed:
        out.write("\nNot reported as a violation: %s - see the notes below the table in §12.5.\n" % ", ".join(missed))
    return out.getvalue()


def status_section():
    r = subprocess.run([sys.executable, os.path.join(ROOT, "tools", "mkstatus.py")], capture_output=True, text=True)
    return r.stdout


def main():
    p = os.path.join(ROOT, "DESIGN.md")
    s = open(p).read()
    for key, fn in (("SEEDS", seeds_section), ("STATUS", status_section)):
        a = "<!-- AUTO:%s:BEGIN -->" % key
        b = "<!-- AUTO:%s:END -->" % key
        i, j = s.index(a) + len(a), s.index(b)
        s = s[:i] + "\n" + fn().rstrip("\n") + "\n" + s[j:]
    open(p, "w").write(s)
    print("DESIGN.md: generated sections refreshed")


if __name__ == "__main__":
    main()
