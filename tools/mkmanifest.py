"""Regenerate MANIFEST.json from engine/props.py (claimed properties) and the not-applicable table below.
usage: python3 tools/mkmanifest.py        (run in /verif; validates against /root/.vp/MANIFEST.schema.json when jsonschema is available)
"""
import json
import os
import sys

ROOT = os.path.dirname(os.path.dirname(os.path.abspath(__file__)))
sys.path.insert(0, ROOT)
from engine import props as P  # noqa: E402

NA = {
    "C14": "not applicable to this technique: 'events depend only on the stream bytes, not on the chunking' relates TWO runs of an incremental parser over every pair of splittings, through the external QPACK codec (pylsqpack, C) whose dynamic-table state has no contract within reach; a per-call contract cannot express it and a product-program proof over the external codec is outside the verifier (DESIGN §6)",
}
NOT_BUILT = "contract-based verification applies in principle (DESIGN §5) but the contracts for the functions this property depends on (%s) are not built; nothing is claimed"
NOT_BUILT_FNS = {
    "C01": "connection.py stream write/handle paths and the composition lemma over the C10 contracts",
    "C03": "tls.py handshake handlers with cryptography stubs",
    "C05": "exception-effect contracts over receive_datagram and every frame / TLS handler",
    "C09": "QuicConnection timer / close state machine",
    "C11": "tls.py Context._handle_reassembled_message dispatch and handlers",
    "C13": "QuicPacketBuilder and datagrams_to_send",
    "C16": "exception-effect contracts over h3/connection.py and h0/connection.py",
    "C18": "connection-ID handlers of connection.py",
    "C20": "logger-guarded blocks as frame conditions",
}
ENGINE_TEXT = {
    "pyvc": "home-built deductive verifier for a Python subset: symbolic execution of the real function's AST (re-read from /repo on every run) against sidecar contracts (requires/ensures/raises-iff/modifies/loop invariants/class invariants/ghost views), modular at calls, VCs discharged by z3 5.1.0 with cvc5/z3-4.8 fallback",
    "cwp": "home-built deductive verifier for the two C helpers: symbolic execution of the clang JSON AST of the real _buffer.c / _crypto.c (post-preprocessing, real headers) over bit-vectors and an object/offset memory model; every memory access, signed operation and shift is an obligation; contracts in contracts/c_*.py; z3",
    "native": "the same contract clauses evaluated by CPython around the real functions (and reference-model checks of the compiled C helpers built from the current sources): replay of counter-models and bounded stand-ins (labelled bounded, never counted as proved)",
}


def main():
    ids = [json.loads(l)["id"] for l in open(os.path.join(ROOT, "properties.jsonl"))]
    checks = []
    serves = {"pyvc": [], "cwp": [], "native": []}
    for pid in ids:
        if pid not in P.PROPS:
            continue
        sp = P.PROPS[pid]
        has_c = any(".c::" in (f if isinstance(f, str) else f[0]) for f in sp["functions"])
        has_py = any(".c::" not in (f if isinstance(f, str) else f[0]) for f in sp["functions"])
        if has_c:
            serves["cwp"].append(pid)
        if has_py:
            serves["pyvc"].append(pid)
        serves["native"].append(pid)
        eng = "cwp" if has_c and not has_py else "pyvc"
        tech = []
        if has_py:
            tech.append("sidecar contracts on the real Python functions, VCs generated from the current source AST by pyvc")
        if has_c:
            tech.append("contracts on the real C functions, VCs generated from the clang AST by cwp (bit-vectors, object/offset memory)")
        quals = [(f if isinstance(f, str) else f[0]) for f in sp["functions"]]
        if any("@" in q for q in quals):
            tech.append("block contracts on statement ranges of the real functions (extracted mechanically on every run; entry conditions assumed and listed)")
        if any(q.startswith("lemma::") for q in quals):
            tech.append("pure lemmas over the spec functions (z3)")
        if any(q.startswith("logblocks::") for q in quals):
            tech.append("non-interference obligations enumerated from the current source and decided by a syntactic frame analysis (engine/logblocks.py, no SMT)")
        if any(q.startswith("dominance::") for q in quals):
            tech.append("control-flow placement obligations ('only after decrypt_packet returned normally') decided on the AST of the current source (engine/dominance.py, no SMT)")
        if any(q.startswith("handlers::") for q in quals):
            tech.append("delivery-handler table: every callable the current source can register with the recovery layer is enumerated, resolved to its definition and tied to a contract verified with SMT frame obligations (engine/handlerframe.py; the table itself is syntactic, no SMT)")
        if sp.get("bounded"):
            tech.append("bounded native stand-ins (%s) run as cross-checks, labelled bounded, never counted as proved" % ", ".join(sp["bounded"]))
        checks.append(
            {
                "property_id": pid,
                "quick_cmd": "./check %s --tier quick" % pid,
                "thorough_cmd": "./check %s --tier thorough" % pid,
                "evidence_file": "/verif/evidence/%s.json" % pid,
                "replay_cmd_template": "cat {path}",
                "engine": eng,
                "level_claimed": {
                    "category": "proof",
                    "text": "Deductive proof (all inputs / all call histories by induction over class invariants) of the clauses listed in scope, on the real code re-read on every run; the remaining clauses of the statement are listed as not decided. Scope: " + sp["scope"],
                    "design_ref": "DESIGN.md §12 (status) and §5 " + pid,
                },
                "level_note": "Trusted: " + "; ".join(sp["trusted_base"]) + ". Not decided: " + sp["not_decided"] + ". Bounded stand-ins (never counted as proved): " + ", ".join(sp.get("bounded", [])) + ".",
                "technique": "; ".join(tech) + "; discharged by z3 (cvc5 / z3-4.8 on unknown)",
            }
        )
    na = []
    for pid in ids:
        if pid in P.PROPS:
            continue
        na.append({"property_id": pid, "reason": NA.get(pid) or NOT_BUILT % NOT_BUILT_FNS.get(pid, "?")})
    old = json.load(open(os.path.join(ROOT, "MANIFEST.json")))
    m = {
        "version": 1,
        "setup_cmd": "python3-vt -c \"import z3, sys; sys.path.insert(0, '.'); import engine.driver\" && /venv/bin/python -c \"import aioquic\" && chmod +x check selftest.sh seedtest.sh",
        "hooks": old["hooks"],
        "engines": [{"name": k, "path": "/verif/engine/" + k, "serves_properties": v, "kind_free_text": ENGINE_TEXT[k]} for k, v in serves.items() if v],
        "checks": checks,
        "notes": "%d of %d properties claimed, each scoped to the clauses listed in level_claimed; DESIGN.md §12 states what exists. ./selftest.sh and ./seedtest.sh are developer kill checks (deliberate / seeded breakages on scratch copies); seeded/ holds independently written property-breaking changes and which checks catch them." % (len(checks), len(ids)),
        "not_applicable": na,
    }
    json.dump(m, open(os.path.join(ROOT, "MANIFEST.json"), "w"), indent=1)
    try:
        import jsonschema

        jsonschema.validate(m, json.load(open("/root/.vp/MANIFEST.schema.json")))
        print("MANIFEST.json valid: %d checks, %d not applicable" % (len(checks), len(na)))
    except ImportError:
        print("MANIFEST.json written (jsonschema not available for validation)")


if __name__ == "__main__":
    main()
