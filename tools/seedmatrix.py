"""Run every seeded defect (seeded/<id>/patch.diff) against the check of its property on a scratch copy of the sources
(./seedtest.sh: copy under /var/tmp, patch applied there, AIOQUIC_SRC pointed at it, copy removed) and record the outcome
in seeded/<id>/meta.json ("checks") and seeded/MATRIX.md.   usage: python3 tools/seedmatrix.py [id ...]"""
import glob
import json
import os
import re
import subprocess
import sys
import time

ROOT = os.path.dirname(os.path.dirname(os.path.abspath(__file__)))
EXTRA = {"C07": ["C18", "C10"], "C06": ["C10"], "C18": ["C05"], "C01": ["C10", "C07"], "C02": ["C04"], "C17": ["C04", "C11"], "C10": ["C01"], "C05": ["C18", "C11", "C13", "C17"], "C16": ["C15"], "C12": ["C05"], "C08": ["C13"], "C03": ["C11"], "C11": ["C03", "C05"], "C13": ["C12"], "C09": ["C02"]}


def main(argv):
    ids = sorted(os.path.basename(d) for d in glob.glob(os.path.join(ROOT, "seeded", "C*-*")))
    if argv:
        ids = [i for i in ids if i in argv or i.split("-")[0] in argv]
    sys.path.insert(0, ROOT)
    from engine import props

    rows = []
    for sid in ids:
        d = os.path.join(ROOT, "seeded", sid)
        meta = json.load(open(os.path.join(d, "meta.json")))
        prop = sid.split("-")[0]
        cands = [p for p in [prop] + EXTRA.get(prop, []) if p in props.PROPS]
        results = {}
        for p in cands:
            t0 = time.time()
            keep = "/var/tmp/verif-seedmatrix-replays.%d" % os.getpid()
            subprocess.run(["rm", "-rf", keep])
            r = subprocess.run(["./seedtest.sh", os.path.join(d, "patch.diff"), p], cwd=ROOT, capture_output=True, text=True, env=dict(os.environ, KEEP_REPLAY=keep))
            out = r.stdout + r.stderr
            obls = []
            for rp in sorted(glob.glob(os.path.join(keep, "*.json"))):
                try:
                    rj = json.load(open(rp))
                    obls.append("%s [%s]" % (rj.get("obligation"), (rj.get("verdict") or "").split(":")[0]))
                except Exception:  # noqa
                    pass
            subprocess.run(["rm", "-rf", keep])
            m = re.search(r"vs %s: rc=(\d+)" % p, out)
            rc = int(m.group(1)) if m else r.returncode
            summ = re.search(r"^%s quick: .*$" % p, out, re.M)
            viol = len(re.findall(r"^VIOLATION", out, re.M))
            nf = len(re.findall(r"no-failing-input-found", out))
            results[p] = {"rc": rc, "violations": viol, "without_replayed_input": nf, "summary": summ.group(0) if summ else out[-300:], "obligations": sorted(set(obls))[:8], "undecided": re.findall(r'undecided: (\{.*?\})', out)[:4], "wall_s": round(time.time() - t0, 1)}
            if rc == 1:
                break
        caught = [p for p, v in results.items() if v["rc"] == 1]
        meta["checks"] = results
        meta["caught_by"] = caught
        meta["what_i_ran"] = "./seedtest.sh seeded/%s/patch.diff %s  (scratch copy of /repo/src/aioquic under /var/tmp with the patch applied; /repo untouched)" % (sid, " ".join(cands))
        json.dump(meta, open(os.path.join(d, "meta.json"), "w"), indent=1)
        rows.append((sid, meta.get("function") or meta.get("files"), caught, results))
        print(sid, "caught by", caught or "-", {p: v["rc"] for p, v in results.items()}, flush=True)
    # matrix over ALL seeds (also those not run this time)
    lines = ["# Seeded defects versus checks", "", "| seed | changed | caught by (exit 1) | other outcomes |", "|---|---|---|---|"]
    for d in sorted(glob.glob(os.path.join(ROOT, "seeded", "C*-*"))):
        meta = json.load(open(os.path.join(d, "meta.json")))
        ch = meta.get("checks") or {}
        other = ", ".join("%s: rc=%s" % (p, v["rc"]) for p, v in ch.items() if v["rc"] != 1)
        fn = meta.get("function") or meta.get("files") or ""
        if isinstance(fn, list):
            fn = ", ".join(fn)
        lines.append("| %s | %s | %s | %s |" % (os.path.basename(d), str(fn)[:90], ", ".join(meta.get("caught_by") or []) if ch else "(not run)", other))
    open(os.path.join(ROOT, "seeded", "MATRIX.md"), "w").write("\n".join(lines) + "\n")


if __name__ == "__main__":
    main(sys.argv[1:])
