"""Kill checks for C20 (developer tool): python3-vt tools/kill_c20.py   - every mutant must print KILLED.
Each mutant is one textual edit of a scratch copy of /repo/src/aioquic under /var/tmp (removed afterwards); the listed quals
are then run with AIOQUIC_SRC pointing at the copy."""
import os, shutil, subprocess, sys, ast

ROOT = os.path.dirname(os.path.dirname(os.path.abspath(__file__)))
RESULTS = []


def mutant(name, rel, old, new, quals, count=1):
    d = "/var/tmp/c20kill-%d" % os.getpid()
    shutil.rmtree(d, ignore_errors=True)
    shutil.copytree("/repo/src/aioquic", d + "/aioquic")
    p = d + "/aioquic/" + rel
    s = open(p).read()
    assert s.count(old) >= 1, (name, "anchor not found")
    s = s.replace(old, new, count)
    open(p, "w").write(s)
    ast.parse(s)
    env = dict(os.environ, AIOQUIC_SRC=d + "/aioquic")
    out = subprocess.run(["python3-vt", "-m", "engine.pyvc.cli"] + quals, cwd=ROOT, env=env, capture_output=True, text=True).stdout
    bad = [ln.strip()[:150] for ln in out.splitlines() if ln.strip().startswith(("refuted", "undecided"))]
    errs = [ln for ln in out.splitlines() if ln.startswith("==") and "errors=[]" not in ln]
    # the known finding of the unchanged tree does not count as a kill
    bad = [b for b in bad if "_encode_http3_headers:total" not in b or "headers" in name]
    RESULTS.append(bool(bad or errs))
    print("%-30s %s   %s" % (name, "KILLED" if bad or errs else "SURVIVED", (bad or errs or [""])[0][:110]))
    shutil.rmtree(d, ignore_errors=True)


# ---- guarded blocks (logblocks::<file>)
C="quic/connection.py"; R="quic/recovery.py"; B="quic/packet_builder.py"; H="h3/connection.py"
QC=["logblocks::"+C]; QR=["logblocks::"+R]; QB=["logblocks::"+B]; QH=["logblocks::"+H]
pad_old='''        # log frame
        if self._quic_logger is not None:
            context.quic_logger_frames.append(self._quic_logger.encode_padding_frame())
'''
mutant("else-branch", C, pad_old, pad_old+"        else:\n            self._probe_pending = True\n", QC)
mutant("return-in-block", C, pad_old, pad_old+"            return\n", QC)
mutant("live-local", C, pad_old, pad_old+"            pos = 0\n", QC)
mutant("read-frames-outside", C, pad_old, pad_old+"        if context.quic_logger_frames:\n            self._probe_pending = True\n", QC)
mutant("guard-is-None-early-return", C, pad_old, "        if self._quic_logger is None:\n            return\n"+pad_old, QC)
mutant("truthy-guard-other-form", C, pad_old, "        if not self._quic_logger:\n            self._probe_pending = True\n"+pad_old, QC)
mutant("ternary-on-handle", C, pad_old, "        self._probe_pending = True if self._quic_logger else False\n"+pad_old, QC)
mutant("side-effect-call-in-arg", C, "self._quic_logger.encode_ack_frame(ack_rangeset, ack_delay)", "self._quic_logger.encode_ack_frame(ack_rangeset, self._idle_timeout())", QC)
mutant("protocol-method-in-block", C, pad_old, pad_old+"            self._send_probe()\n", QC)
mutant("augassign-in-block", C, pad_old, pad_old+"            self._packet_number += 1\n", QC)
mutant("subscript-store-protocol", C, pad_old, pad_old+"            self._streams[0] = None\n", QC)
mutant("decode-utf8-in-block", C, "data={\"key_type\": key_type, \"trigger\": trigger},", "data={\"key_type\": key_type, \"trigger\": trigger, \"x\": self._peer_cid.cid.decode(\"utf8\")},", QC)
mutant("walrus-in-block", C, pad_old, pad_old.replace("encode_padding_frame()", "encode_datagram_frame(length=(pos := 3))"), QC)
mutant("lambda-uses-handle", C, pad_old, "        f = lambda: self._quic_logger\n"+pad_old, QC)
mutant("handle-passed-to-other", C, pad_old, "        self._loss.foo = self._quic_logger\n"+pad_old, QC)
mutant("frames-list-mutated-outside", C, pad_old, pad_old+"        context.quic_logger_frames.append(1)\n", QC)
mutant("raise-in-block", C, pad_old, pad_old+"            raise ValueError('x')\n", QC)
mutant("assert-in-block", C, pad_old, pad_old+"            assert context.epoch is not None\n", QC)
mutant("for-loop-in-block", C, pad_old, pad_old+"            for s in self._streams.values():\n                s.x = 1\n", QC)
mutant("unbound-name-in-block", C, pad_old, pad_old.replace("encode_padding_frame()", "encode_datagram_frame(length=nonexistent_name)"), QC)
mutant("subscript-in-block", C, pad_old, pad_old.replace("encode_padding_frame()", "encode_datagram_frame(length=self._streams[77])"), QC)
mutant("unguarded-metrics-call", R, "        # reset PTO count\n        self._pto_count = 0\n\n        if self._quic_logger is not None:\n            self._log_metrics_updated(log_rtt=log_rtt)", "        self._pto_count = 0\n        self._log_metrics_updated(log_rtt=log_rtt)", QR)
mutant("metrics-writes-state", R, "        data: dict[str, Any] = self._cc.get_log_data()\n", "        data: dict[str, Any] = self._cc.get_log_data()\n        self._pto_count = 0\n", QR)
mutant("get_log_data-writes", "quic/congestion/base.py", "        if self.ssthresh is not None:\n            data[\"ssthresh\"]", "        self.bytes_in_flight = 0\n        if self.ssthresh is not None:\n            data[\"ssthresh\"]", QR)
mutant("get_log_data-not-fresh", "quic/congestion/base.py", "        data = {\"cwnd\": self.congestion_window, \"bytes_in_flight\": self.bytes_in_flight}", "        data = self._shared", QR)
mutant("builder-block-sets-flag", B, "                    self._packet.quic_logger_frames.append(\n                        self._quic_logger.encode_padding_frame()\n                    )", "                    self._packet.quic_logger_frames.append(\n                        self._quic_logger.encode_padding_frame()\n                    )\n                    self._packet.in_flight = True", QB)
mutant("h3-state-update-in-block", H, "            # update state and send headers\n            if stream.headers_send_state == HeadersState.INITIAL:", "                stream.headers_send_state = HeadersState.AFTER_HEADERS\n            if stream.headers_send_state == HeadersState.INITIAL:", QH)
mutant("h3-extra-conjunct-call", H, "                    and stream.frame_type == FrameType.DATA\n                ):", "                    and buf.pull_uint8() == 0\n                ):", QH)
mutant("secrets-block-writes", C, "            secrets_log_file.flush()\n", "            secrets_log_file.flush()\n            self._version = 1\n", QC)
mutant("other-file-reads-handle", "asyncio/protocol.py", "        self._quic = quic\n", "        self._quic = quic\n        self._has_log = quic._quic_logger is not None\n", ["logblocks::@rest"])
mutant("setup-block-extra", C, "                odcid=self._original_destination_connection_id,\n            )\n", "                odcid=self._original_destination_connection_id,\n            )\n            self._max_datagram_size = 1200\n", QC)

# ---- JSON typing / encoders (syntactic)
C="quic/connection.py"; R="quic/recovery.py"; L="quic/logger.py"; H="h3/connection.py"
QC=["logblocks::"+C]; QR=["logblocks::"+R]; QL=["logblocks::"+L]; QH=["logblocks::"+H]
mutant("site-bytes-in-data", C, '"dcid": dump_cid(self._peer_cid.cid),', '"dcid": self._peer_cid.cid,', QC)
mutant("site-object-in-data", C, '"raw": {"length": header.packet_length},', '"raw": {"length": header},', QC)
mutant("site-append-raw-frame", C, "self._quic_logger.encode_crypto_frame(frame)\n                )\n            return True", "frame\n                )\n            return True", QC)
mutant("site-category-not-str", C, 'category="security",\n                event="key_retired",', 'category=3,\n                event="key_retired",', QC)
mutant("enc-bytes-token", L, '"token": hexdump(token),', '"token": token,', QL)
mutant("enc-tuple-ranges", L, "[[x.start, x.stop - 1] for x in ranges]", "[(x.start, x.stop - 1) for x in ranges]", QL)
mutant("enc-odcid-bytes", L, '"ODCID": hexdump(self._odcid),', '"ODCID": self._odcid,', QL)
mutant("log_event-extra-write", L, "    def log_event(self, *, category: str, event: str, data: dict) -> None:\n", "    def log_event(self, *, category: str, event: str, data: dict) -> None:\n        self._odcid = b''\n", QL)
mutant("enc-writes-self", L, '        return {"frame_type": "ping"}', '        self._pings = 1\n        return {"frame_type": "ping"}', QL)
mutant("enc-assert", L, '        return {"frame_type": "data_blocked", "limit": limit}', '        assert limit >= 0\n        return {"frame_type": "data_blocked", "limit": limit}', QL)
mutant("enc-decode-data", L, '"length": len(frame.data),\n            "offset": frame.offset,\n            "stream_id": stream_id,', '"length": len(frame.data),\n            "offset": frame.offset,\n            "payload": frame.data.decode(),\n            "stream_id": stream_id,', QL)
mutant("enc-clears-events", L, '        return {"frame_type": "padding"}', '        self._events.clear()\n        return {"frame_type": "padding"}', QL)
mutant("packet_type-missing-key", L, '    QuicPacketType.RETRY: "retry",\n', '', QL)
mutant("get_log_data-bytes", "quic/congestion/cubic.py", 'data["cubic-wmax"] = int(self._W_max)', 'data["cubic-wmax"] = b"x"', QR)
mutant("enc-mutates-arg", L, '        return {"data": hexdump(data), "frame_type": "path_challenge"}', '        data.clear()\n        return {"data": hexdump(data), "frame_type": "path_challenge"}', QL)
mutant("tp-raw-bytes", L, "                data[param_name] = hexdump(param_value)", "                data[param_name] = param_value", QL)
mutant("tp-else-anything", L, "            elif isinstance(param_value, int):\n                data[param_name] = param_value\n", "            elif isinstance(param_value, int):\n                data[param_name] = param_value\n            else:\n                data[param_name] = param_value\n", QL)
mutant("h3-type-name-bytes", H, '3: "qpack_decoder",', '3: b"qpack_decoder",', QH)

# ---- encoders (pyvc, #c20 variants)
L="quic/logger.py"
def q(m): return ["quic/logger.py::QuicLoggerTrace.%s#c20" % m]
mutant("pyvc-bytes-token", L, '"token": hexdump(token),', '"token": token,', q("encode_new_token_frame"))
mutant("pyvc-bytes-cid", L, '"connection_id": hexdump(connection_id),', '"connection_id": connection_id,', q("encode_new_connection_id_frame"))
mutant("pyvc-data-in-stream", L, '"length": len(frame.data),\n            "offset": frame.offset,\n            "stream_id": stream_id,', '"length": frame.data,\n            "offset": frame.offset,\n            "stream_id": stream_id,', q("encode_stream_frame"))
mutant("pyvc-int-key", L, '        return {"frame_type": "data_blocked", "limit": limit}', '        return {1: "data_blocked", "limit": limit}', q("encode_data_blocked_frame"))
mutant("pyvc-enc-writes", L, '        return {"frame_type": "datagram", "length": length}', '        self._odcid = b""\n        return {"frame_type": "datagram", "length": length}', q("encode_datagram_frame"))
mutant("pyvc-enc-raises", L, '        return {"frame_type": "datagram", "length": length}', '        if length > 70000:\n            raise ValueError("x")\n        return {"frame_type": "datagram", "length": length}', q("encode_datagram_frame"))
mutant("pyvc-enc-div", L, '        return {"frame_type": "datagram", "length": length}', '        return {"frame_type": "datagram", "length": 100 // length}', q("encode_datagram_frame"))
mutant("pyvc-packet-type-key", L, '    QuicPacketType.RETRY: "retry",\n', '', q("packet_type"))
mutant("pyvc-log_event-two", L, '''                "time": self.encode_time(time.time()),
            }
        )
''', '''                "time": self.encode_time(time.time()),
            }
        )
        self._events.popleft()
''', q("log_event"))
mutant("pyvc-log_event-bytes", L, '"name": category + ":" + event,', '"name": category + ":" + event, "odcid": self._odcid,', q("log_event"))
mutant("pyvc-log_event-other-field", L, '    def log_event(self, *, category: str, event: str, data: dict) -> None:\n', '    def log_event(self, *, category: str, event: str, data: dict) -> None:\n        self._odcid = b""\n', q("log_event"))
mutant("pyvc-headers-ascii", L, 'h[1].decode("utf8")', 'h[1].decode("ascii")', q("_encode_http3_headers"))

print("%d mutants, %d killed" % (len(RESULTS), sum(RESULTS)))
sys.exit(0 if all(RESULTS) else 1)
