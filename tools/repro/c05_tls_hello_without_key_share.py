"""Native reproduction (C05: TLS input can only produce tls.Alert): hello messages WITHOUT the key_share extension, before any
authentication (Initial keys are public).
  client <- ServerHello without key_share : decode_public_key(None)            -> TypeError 'NoneType' object is not subscriptable
  server <- ClientHello without key_share : `for key_share in peer_hello.key_share` -> TypeError 'NoneType' object is not iterable
exit status 1 if a non-Alert exception was raised (unchanged tree), 0 with tools/fixes/c05_tls_nonalert2.patch"""
import sys
import os
FAILED = []
from aioquic import tls
from aioquic.buffer import Buffer
from aioquic.tls import Context
def buffers(): return {e: Buffer(capacity=16384) for e in (tls.Epoch.INITIAL, tls.Epoch.HANDSHAKE, tls.Epoch.ONE_RTT)}
def message(t, body): return bytes([t]) + len(body).to_bytes(3,"big") + body
def ext(t, b): return t.to_bytes(2,"big")+len(b).to_bytes(2,"big")+b
client = Context(alpn_protocols=["hq-interop"], is_client=True)
cb = buffers(); client.handle_message(b"", cb)
# ServerHello without key_share
exts = ext(43, (0x0304).to_bytes(2,"big"))
body = (0x0303).to_bytes(2,"big") + os.urandom(32) + b"\x00" + (0x1301).to_bytes(2,"big") + b"\x00" + len(exts).to_bytes(2,"big") + exts
try:
    client.handle_message(message(2, body), buffers()); print("no exception", client.state)
except tls.Alert as e: print("Alert", type(e).__name__, e)
except Exception as e: print("FAIL handle_message raised", type(e).__name__, e); FAILED.append(1)
# server: ClientHello without key_share extension
from aioquic.quic.configuration import QuicConfiguration
cfg = QuicConfiguration(is_client=False); cfg.load_cert_chain("/repo/tests/ssl_cert.pem", "/repo/tests/ssl_key.pem")
server = Context(alpn_protocols=["hq-interop"], is_client=False); server.certificate = cfg.certificate; server.certificate_private_key = cfg.private_key
def lst(cap, b): return len(b).to_bytes(cap,"big")+b
exts = ext(43, lst(1,(0x0304).to_bytes(2,"big"))) + ext(13, lst(2,(0x0804).to_bytes(2,"big"))) + ext(10, lst(2,(0x001d).to_bytes(2,"big"))) + ext(16, lst(2, lst(1,b"hq-interop")))
body = (0x0303).to_bytes(2,"big") + os.urandom(32) + b"\x00" + lst(2,(0x1301).to_bytes(2,"big")) + lst(1,b"\x00") + lst(2, exts)
try:
    server.handle_message(message(1, body), buffers()); print("no exception", server.state)
except tls.Alert as e: print("Alert", type(e).__name__, e)
except Exception as e: print("FAIL handle_message raised", type(e).__name__, e); FAILED.append(1)

sys.exit(1 if FAILED else 0)
