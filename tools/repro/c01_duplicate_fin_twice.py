"""Native reproduction (C01 'end-of-stream is signalled at most once'): the network duplicates the datagram that
carries the FIN of a bidirectional stream whose other direction is still open; the receiving endpoint delivers a
second StreamDataReceived(end_stream=True) for the same stream."""
import os
import sys

from aioquic.quic.configuration import QuicConfiguration
from aioquic.quic.connection import QuicConnection
from aioquic.quic import events

HERE = "/repo/tests"
CA, SA = ("1.2.3.4", 1234), ("2.3.4.5", 4433)
cc = QuicConfiguration(is_client=True)
cc.load_verify_locations(cafile=os.path.join(HERE, "pycacert.pem"))
sc = QuicConfiguration(is_client=False)
sc.load_cert_chain(os.path.join(HERE, "ssl_cert.pem"), os.path.join(HERE, "ssl_key.pem"))
c = QuicConnection(configuration=cc)
s = QuicConnection(configuration=sc, original_destination_connection_id=c.original_destination_connection_id)
c.connect(SA, now=0.0)
now = 0.0


def shuttle(dup=False):
    for _ in range(8):
        moved = False
        for d, _a in c.datagrams_to_send(now=now):
            s.receive_datagram(d, CA, now=now)
            if dup:
                s.receive_datagram(d, CA, now=now)  # the network duplicates the datagram
            moved = True
        for d, _a in s.datagrams_to_send(now=now):
            c.receive_datagram(d, SA, now=now)
            moved = True
        if not moved:
            return


for _ in range(5):
    now += 0.01
    shuttle()
while s.next_event() is not None:
    pass
sid = c.get_next_available_stream_id()
c.send_stream_data(sid, b"hello", end_stream=True)
now += 0.01
shuttle(dup=True)
ends = 0
data = b""
ev = s.next_event()
while ev is not None:
    if isinstance(ev, events.StreamDataReceived) and ev.stream_id == sid:
        data += ev.data
        ends += 1 if ev.end_stream else 0
    if isinstance(ev, events.ConnectionTerminated):
        print("connection terminated:", ev)
    ev = s.next_event()
if ends != 1 or data != b"hello":
    print("FAIL: stream %d: data=%r, end-of-stream signalled %d times after the FIN datagram was duplicated" % (sid, data, ends))
    sys.exit(1)
print("PASS: data=%r end_stream signalled once" % data)
