"""Native reproduction (C05 / C11: TLS input can only produce tls.Alert, never another exception): a client tls.Context
that has processed a genuine ServerHello is fed hand-made messages of the encrypted server flight (which any server
can produce: the handshake keys follow from the ServerHello alone, nothing is authenticated yet).
  case alpn:   EncryptedExtensions whose ALPN extension holds an empty protocol list      -> IndexError   (before fix)
  case cert0:  Certificate message with an empty certificate list                         -> IndexError   (before fix)
  case certx:  Certificate message whose first entry is not DER                           -> ValueError   (before fix)
usage: c05_tls_hostile_server_flight.py [alpn|cert0|certx ...]   (default: all)"""
import os
import sys

from aioquic import tls
from aioquic.buffer import Buffer
from aioquic.quic.configuration import QuicConfiguration
from aioquic.tls import Context

TESTS = os.environ.get("AIOQUIC_TESTS", "/repo/tests")


def buffers():
    return {e: Buffer(capacity=8192) for e in (tls.Epoch.INITIAL, tls.Epoch.HANDSHAKE, tls.Epoch.ONE_RTT)}


def start():
    client = Context(alpn_protocols=["hq-interop"], cafile=os.path.join(TESTS, "pycacert.pem"), is_client=True)
    client.handshake_extensions = [(tls.ExtensionType.QUIC_TRANSPORT_PARAMETERS, b"")]
    cfg = QuicConfiguration(is_client=False)
    cfg.load_cert_chain(os.path.join(TESTS, "ssl_cert.pem"), os.path.join(TESTS, "ssl_key.pem"))
    server = Context(alpn_protocols=["hq-interop"], is_client=False)
    server.certificate = cfg.certificate
    server.certificate_private_key = cfg.private_key
    server.handshake_extensions = [(tls.ExtensionType.QUIC_TRANSPORT_PARAMETERS, b"")]
    cb, sb = buffers(), buffers()
    client.handle_message(b"", cb)
    server.handle_message(cb[tls.Epoch.INITIAL].data, sb)
    client.handle_message(sb[tls.Epoch.INITIAL].data, buffers())  # genuine ServerHello
    assert client.state == tls.State.CLIENT_EXPECT_ENCRYPTED_EXTENSIONS
    return client


def message(handshake_type, body):
    return bytes([handshake_type]) + len(body).to_bytes(3, "big") + body


EMPTY_ALPN_EE = message(8, (6).to_bytes(2, "big") + (16).to_bytes(2, "big") + (2).to_bytes(2, "big") + (0).to_bytes(2, "big"))
PLAIN_EE = message(8, (0).to_bytes(2, "big"))
CERT_EMPTY = message(11, b"\x00" + (0).to_bytes(3, "big"))
BAD = b"this is not DER"
CERT_NOT_DER = message(11, b"\x00" + (len(BAD) + 5).to_bytes(3, "big") + len(BAD).to_bytes(3, "big") + BAD + (0).to_bytes(2, "big"))

CASES = {
    "alpn": [EMPTY_ALPN_EE],
    "cert0": [PLAIN_EE, CERT_EMPTY],
    "certx": [PLAIN_EE, CERT_NOT_DER],
}
failed = False
for name in sys.argv[1:] or sorted(CASES):
    client = start()
    try:
        for m in CASES[name]:
            client.handle_message(m, buffers())
        print("case %s: no exception (state %s)" % (name, client.state))
    except tls.Alert as exc:
        print("case %s: PASS tls.%s: %s" % (name, type(exc).__name__, exc))
    except Exception as exc:  # noqa
        print("case %s: FAIL handle_message raised %s: %s" % (name, type(exc).__name__, exc))
        failed = True
sys.exit(1 if failed else 0)
