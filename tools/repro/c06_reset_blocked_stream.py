"""Native reproduction (C06 'no stream is opened beyond the peer's stream-count limits'): reset_stream() on a locally
created stream that is still blocked by the peer's MAX_STREAMS puts a RESET_STREAM frame for that stream on the wire; a
conforming peer treats the unknown stream id beyond its limit as STREAM_LIMIT_ERROR."""
import os
import sys

from aioquic.quic.configuration import QuicConfiguration
from aioquic.quic.connection import QuicConnection
from aioquic.quic import events

HERE = "/repo/tests"
CA, SA = ("1.2.3.4", 1234), ("2.3.4.5", 4433)
cc = QuicConfiguration(is_client=True)
cc.load_verify_locations(cafile=os.path.join(HERE, "pycacert.pem"))
sc = QuicConfiguration(is_client=False)
sc.load_cert_chain(os.path.join(HERE, "ssl_cert.pem"), os.path.join(HERE, "ssl_key.pem"))
c = QuicConnection(configuration=cc)
s = QuicConnection(configuration=sc, original_destination_connection_id=c.original_destination_connection_id)
c.connect(SA, now=0.0)
now = 0.0


def shuttle():
    for _ in range(8):
        moved = False
        for d, _a in c.datagrams_to_send(now=now):
            s.receive_datagram(d, CA, now=now)
            moved = True
        for d, _a in s.datagrams_to_send(now=now):
            c.receive_datagram(d, SA, now=now)
            moved = True
        if not moved:
            return


for _ in range(5):
    now += 0.01
    shuttle()
limit = c._remote_max_streams_bidi
# open exactly `limit` streams (allowed), then one more (blocked by the peer's limit) and reset it
sid = 0
for i in range(limit + 1):
    sid = c.get_next_available_stream_id()
    c.send_stream_data(sid, b"x" if i < limit else b"")
assert c._streams[sid].is_blocked, "the extra stream should be blocked"
c.reset_stream(sid, 0)
for _ in range(6):
    now += 0.01
    shuttle()
closed = s._close_event  # set as soon as the server decides to close (the event itself is emitted after the closing period)
if closed is not None and closed.error_code == 0x4:
    print("FAIL: client sent RESET_STREAM for stream %d, which the peer's MAX_STREAMS (%d) does not allow; server closed with STREAM_LIMIT_ERROR (frame type %#x)" % (sid, limit, closed.frame_type or 0))
    sys.exit(1)
print("PASS", closed)
