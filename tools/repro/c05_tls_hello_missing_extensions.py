"""Native sweep (C05: TLS input can only produce tls.Alert): genuine ClientHello / ServerHello messages from which ONE extension
at a time (and every pair) is removed, fed to a fresh server / client tls.Context.  On the unchanged tree only the removal
of key_share escapes as a non-Alert (TypeError); with tools/fixes/c05_tls_nonalert2.patch every case is an alert or accepted.
exit status 1 if any case raised a non-Alert"""
import itertools
import os
import sys

from aioquic import tls
from aioquic.buffer import Buffer
from aioquic.quic.configuration import QuicConfiguration
from aioquic.tls import Context

TESTS = os.environ.get("AIOQUIC_TESTS", "/repo/tests")


def buffers():
    return {e: Buffer(capacity=16384) for e in (tls.Epoch.INITIAL, tls.Epoch.HANDSHAKE, tls.Epoch.ONE_RTT)}


def new_client():
    c = Context(alpn_protocols=["hq-interop"], cafile=os.path.join(TESTS, "pycacert.pem"), is_client=True, server_name="localhost")
    c.handshake_extensions = [(tls.ExtensionType.QUIC_TRANSPORT_PARAMETERS, b"")]
    return c


def new_server():
    cfg = QuicConfiguration(is_client=False)
    cfg.load_cert_chain(os.path.join(TESTS, "ssl_cert.pem"), os.path.join(TESTS, "ssl_key.pem"))
    s = Context(alpn_protocols=["hq-interop"], is_client=False)
    s.certificate, s.certificate_private_key = cfg.certificate, cfg.private_key
    s.handshake_extensions = [(tls.ExtensionType.QUIC_TRANSPORT_PARAMETERS, b"")]
    return s


def split_hello(msg, is_client_hello):
    """(bytes before the extensions block, [(type, raw extension bytes)])"""
    p = 4 + 2 + 32
    p += 1 + msg[p]  # legacy_session_id
    if is_client_hello:
        p += 2 + int.from_bytes(msg[p:p + 2], "big")  # cipher suites
        p += 1 + msg[p]  # compression methods
    else:
        p += 3  # cipher suite, compression method
    head, end = msg[:p], p + 2 + int.from_bytes(msg[p:p + 2], "big")
    p += 2
    exts = []
    while p < end:
        n = 4 + int.from_bytes(msg[p + 2:p + 4], "big")
        exts.append((int.from_bytes(msg[p:p + 2], "big"), msg[p:p + n]))
        p += n
    return head, exts


def rebuild(head, exts):
    body = head[4:] + len(b"".join(e for _t, e in exts)).to_bytes(2, "big") + b"".join(e for _t, e in exts)
    return head[:1] + len(body).to_bytes(3, "big") + body


def sweep(label, msg, is_client_hello, feed):
    failed = False
    head, exts = split_hello(msg, is_client_hello)
    assert rebuild(head, exts) == msg
    for r in (1, 2):
        for drop in itertools.combinations(range(len(exts)), r):
            kept = [e for i, e in enumerate(exts) if i not in drop]
            names = "+".join(str(exts[i][0]) for i in drop)
            try:
                feed(rebuild(head, kept))
                res = "accepted"
            except tls.Alert as exc:
                res = "tls." + type(exc).__name__
            except Exception as exc:  # noqa
                res = "FAIL %s: %s" % (type(exc).__name__, exc)
                failed = True
            if r == 1 or res.startswith("FAIL"):
                print("%s without extension(s) %-8s -> %s" % (label, names, res))
    return failed


if __name__ == "__main__":
    c0, cb = new_client(), buffers()
    c0.handle_message(b"", cb)
    client_hello = cb[tls.Epoch.INITIAL].data
    s0, sb = new_server(), buffers()
    s0.handle_message(client_hello, sb)
    server_hello = sb[tls.Epoch.INITIAL].data

    def feed_server(m):
        new_server().handle_message(m, buffers())

    def feed_client(m):
        # a client whose ClientHello is the one the ServerHello answers cannot be cloned: use a fresh client (its own
        # ClientHello is sent first); the ServerHello is parsed and checked the same way up to the key exchange
        c = new_client()
        c.handle_message(b"", buffers())
        c.handle_message(m, buffers())

    bad = sweep("ClientHello", client_hello, True, feed_server)
    bad = sweep("ServerHello", server_hello, False, feed_client) or bad
    sys.exit(1 if bad else 0)
