"""Native probe of the TRUSTED stubs that contracts/tls_noraise.py declares for the `cryptography` calls made by the TLS
message handlers (property C05, TLS part).  For every stub: the declared exception is demonstrated, and a battery of
malformed inputs (including a byte-flip sweep) is run to see that NO OTHER exception type occurs.  Run with /venv/bin/python.

Declared raise sets (from the library documentation, cryptography 50.x):
  X25519PublicKey.from_public_bytes(data) / X448PublicKey.from_public_bytes(data)     ValueError (wrong length)
  EllipticCurvePublicKey.from_encoded_point(curve, data)                              ValueError (not a point of the curve)
  X25519PrivateKey.exchange / X448PrivateKey.exchange                                 ValueError (all-zero shared secret: low-order point)
  EllipticCurvePrivateKey.exchange(ECDH(), peer)                                      ValueError (curve mismatch)
  x509.load_der_x509_certificate(data)                                                ValueError - and x509.InvalidVersion (NOT a ValueError
                                                                                      subclass; not in the documentation, observed: wrong version field)
  Certificate.public_key()                                                            ValueError (malformed key), UnsupportedAlgorithm (unknown key type)
  <public key>.verify(signature, data, *params) with params of THAT key type          InvalidSignature
  <public key>.verify(...) with the parameters of ANOTHER key type                    TypeError / AttributeError   <- Python call-protocol errors
  hashes.Hash / hmac.HMAC / HKDFExpand(length = digest size)                          total on bytes

exit status 0 when every observation is inside the declared sets."""
import datetime
import os
import random
import sys

from cryptography import x509
from cryptography.exceptions import InvalidSignature, UnsupportedAlgorithm
from cryptography.hazmat.primitives import hashes, hmac, serialization
from cryptography.hazmat.primitives.asymmetric import dsa, ec, ed448, ed25519, padding, rsa, x448, x25519
from cryptography.hazmat.primitives.kdf.hkdf import HKDFExpand
from cryptography.x509.oid import NameOID

LOAD_DER = (ValueError, x509.InvalidVersion)

random.seed(5)
bad = []


def observe(label, fn, allowed):
    """run fn(); returns the exception type name or 'ok'; records a violation when the type is not allowed"""
    try:
        fn()
        return "ok"
    except allowed as exc:
        return type(exc).__name__
    except Exception as exc:  # noqa
        bad.append("%s: %s: %s" % (label, type(exc).__name__, exc))
        return "UNDECLARED " + type(exc).__name__


def report(label, seen):
    print("%-62s %s" % (label, dict(sorted((k, seen.count(k)) for k in set(seen)))))


def blobs(n):
    yield b""
    for k in (1, 5, 31, 32, 33, 55, 56, 57, 64, 65, 66, 97, 133, 200):
        yield bytes(k)
        yield b"\xff" * k
        yield b"\x04" + os.urandom(max(k - 1, 0))
    for _ in range(n):
        yield os.urandom(random.randrange(0, 140))


# ---- key share decoding
report("X25519PublicKey.from_public_bytes", [observe("x25519.from_public_bytes", lambda b=b: x25519.X25519PublicKey.from_public_bytes(b), (ValueError,)) for b in blobs(300)])
report("X448PublicKey.from_public_bytes", [observe("x448.from_public_bytes", lambda b=b: x448.X448PublicKey.from_public_bytes(b), (ValueError,)) for b in blobs(300)])
for curve in (ec.SECP256R1, ec.SECP384R1, ec.SECP521R1):
    report("EllipticCurvePublicKey.from_encoded_point(%s)" % curve.name,
           [observe("from_encoded_point", lambda b=b: ec.EllipticCurvePublicKey.from_encoded_point(curve(), b), (ValueError,)) for b in blobs(300)])

# ---- key exchange
LOW_ORDER_25519 = [bytes(32), b"\x01" + bytes(31), bytes.fromhex("e0eb7a7c3b41b8ae1656e3faf19fc46ada098deb9c32b1fd866205165f49b800"),
                   bytes.fromhex("5f9c95bca3508c24b1d0b1559c83ef5b04445cc4581c8e86d8224eddd09f1157"), bytes.fromhex("ecffffffffffffffffffffffffffffffffffffffffffffffffffffffffffff7f")]
sk = x25519.X25519PrivateKey.generate()
report("X25519PrivateKey.exchange(low order / random points)",
       [observe("x25519.exchange", lambda b=b: sk.exchange(x25519.X25519PublicKey.from_public_bytes(b)), (ValueError,)) for b in LOW_ORDER_25519 + [os.urandom(32) for _ in range(200)]])
sk4 = x448.X448PrivateKey.generate()
report("X448PrivateKey.exchange(low order / random points)",
       [observe("x448.exchange", lambda b=b: sk4.exchange(x448.X448PublicKey.from_public_bytes(b)), (ValueError,)) for b in [bytes(56), b"\x01" + bytes(55)] + [os.urandom(56) for _ in range(200)]])
p256, p384 = ec.generate_private_key(ec.SECP256R1()), ec.generate_private_key(ec.SECP384R1())
report("EllipticCurvePrivateKey.exchange(ECDH) same / other curve",
       [observe("ecdh", lambda: p256.exchange(ec.ECDH(), ec.generate_private_key(ec.SECP256R1()).public_key()), (ValueError,)),
        observe("ecdh", lambda: p256.exchange(ec.ECDH(), p384.public_key()), (ValueError,))])

# ---- certificates
def make_cert(subject_key, extensions=()):
    issuer_key = rsa.generate_private_key(public_exponent=65537, key_size=2048)
    name = x509.Name([x509.NameAttribute(NameOID.COMMON_NAME, "localhost")])
    now = datetime.datetime.now(datetime.timezone.utc)
    b = (x509.CertificateBuilder().subject_name(name).issuer_name(name).public_key(subject_key).serial_number(1)
         .not_valid_before(now - datetime.timedelta(days=1)).not_valid_after(now + datetime.timedelta(days=1)))
    for e in extensions:
        b = b.add_extension(e, critical=False)
    return b.sign(issuer_key, hashes.SHA256()).public_bytes(serialization.Encoding.DER)


KEYS = {
    "rsa": rsa.generate_private_key(public_exponent=65537, key_size=2048),
    "p256": ec.generate_private_key(ec.SECP256R1()),
    "ed25519": ed25519.Ed25519PrivateKey.generate(),
    "ed448": ed448.Ed448PrivateKey.generate(),
    "dsa": dsa.generate_private_key(key_size=2048),
    "x25519": x25519.X25519PrivateKey.generate(),
}
DERS = {k: make_cert(v.public_key()) for k, v in KEYS.items()}

report("x509.load_der_x509_certificate(random / truncated)",
       [observe("load_der", lambda b=b: x509.load_der_x509_certificate(b), LOAD_DER) for b in list(blobs(200)) + [DERS["rsa"][:k] for k in range(0, len(DERS["rsa"]), 7)]])

# byte-flip sweep over whole certificates: parse, then public_key()
for kind in ("p256", "rsa", "ed25519"):
    der = DERS[kind]
    seen_load, seen_pk = [], []
    for pos in range(len(der)):
        for flip in (0x01, 0x80, 0xFF):
            m = bytearray(der)
            m[pos] ^= flip
            holder = {}
            r = observe("load_der(flip %s@%d)" % (kind, pos), lambda: holder.setdefault("c", x509.load_der_x509_certificate(bytes(m))), LOAD_DER)
            seen_load.append(r)
            if r == "ok":
                seen_pk.append(observe("public_key(flip %s@%d)" % (kind, pos), lambda: holder["c"].public_key(), (ValueError, UnsupportedAlgorithm)))
    report("load_der_x509_certificate(byte flips of a %s cert)" % kind, seen_load)
    report("Certificate.public_key()   (byte flips of a %s cert)" % kind, seen_pk)

# ---- signature verification
HASH = hashes.SHA256()
PARAMS = {
    "ecdsa": (ec.ECDSA(HASH),),
    "pss": (padding.PSS(mgf=padding.MGF1(HASH), salt_length=HASH.digest_size), HASH),
    "pkcs1": (padding.PKCS1v15(), HASH),
    "eddsa": (),
}
MATCH = {"rsa": ("pss", "pkcs1"), "p256": ("ecdsa",), "ed25519": ("eddsa",), "ed448": ("eddsa",)}
for kind, cert_der in DERS.items():
    pub = x509.load_der_x509_certificate(cert_der).public_key()
    for pname, params in PARAMS.items():
        matching = pname in MATCH.get(kind, ())
        seen = []
        for sig in (b"", b"\x00" * 64, os.urandom(256), os.urandom(71), b"\x30\x06\x02\x01\x01\x02\x01\x01"):
            if matching:
                seen.append(observe("verify %s/%s" % (kind, pname), lambda: pub.verify(sig, b"data", *params), (InvalidSignature,)))
            else:
                # NOT part of a stub's declared set: shown here because tls.Context reaches it (finding)
                try:
                    pub.verify(sig, b"data", *params)
                    seen.append("ok")
                except Exception as exc:  # noqa
                    seen.append(type(exc).__name__)
        report("%s key .verify(sig, data, *%s params)%s" % (kind, pname, "" if matching else "   [MISMATCH]"), seen)

# ---- hash / HMAC / HKDF: total
for alg in (hashes.SHA256(), hashes.SHA384()):
    seen = []
    for b in blobs(50):
        def run(b=b, alg=alg):
            h = hashes.Hash(alg)
            h.update(b)
            d = h.copy().finalize()
            m = hmac.HMAC(b, alg)
            m.update(d)
            m.finalize()
            HKDFExpand(algorithm=alg, length=alg.digest_size, info=b[:200]).derive(b)
        seen.append(observe("hash/hmac/hkdf", run, ()))
    report("Hash / HMAC / HKDFExpand(%s)" % alg.name, seen)

# ---- tls.py wrappers that the contracts assume BY READING (thin dispatch over tables of cryptography classes)
from aioquic import tls  # noqa: E402

known = {int(k) for k in tls.SIGNATURE_ALGORITHMS} | {int(tls.SignatureAlgorithm.ED25519), int(tls.SignatureAlgorithm.ED448)}
spec_known = {2055, 2056, 1027, 1283, 1539, 513, 1025, 1281, 1537, 2052, 2053, 2054}  # sig_alg_known of contracts/tls_state.py
seen = []
for code in range(65536):
    try:
        tls.signature_algorithm_params(code)
        r = "ok"
    except KeyError:
        r = "KeyError"
    except Exception as exc:  # noqa
        r = "UNDECLARED " + type(exc).__name__
        bad.append("signature_algorithm_params(%d): %s" % (code, r))
    if (r == "ok") != (code in spec_known):
        bad.append("signature_algorithm_params(%d): %s but sig_alg_known says %s" % (code, r, code in spec_known))
    seen.append(r)
report("tls.signature_algorithm_params(all 65536 codes) vs sig_alg_known", seen)
assert known == spec_known, (known, spec_known)
seen = []
for group in list(range(0, 64)) + [0x1D, 0x1E, 0x17, 0x18, 0x19, 0xAAAA, 0xFFFF]:
    for b in blobs(12):
        seen.append(observe("decode_public_key", lambda: tls.decode_public_key((group, b)), (tls.AlertIllegalParameter,)))
report("tls.decode_public_key(group, malformed share)", seen)
assert {int(k) for k in tls.CIPHER_SUITES} == {4865, 4866, 4867}  # suite_known of contracts/tls_state.py
ctx = tls.Context(is_client=True)
ctx.key_schedule = tls.KeySchedule(tls.CipherSuite.AES_128_GCM_SHA256)
seen = []
for lifetime in (0, 1, 86400, 2**31, 2**32 - 1):
    for nonce in (b"", b"\x00", bytes(255)):
        t = tls.NewSessionTicket(ticket_lifetime=lifetime, ticket_age_add=2**32 - 1, ticket_nonce=nonce, ticket=bytes(65535))
        seen.append(observe("_build_session_ticket", lambda: ctx._build_session_ticket(t, []), ()))
report("tls.Context._build_session_ticket(extreme lifetime / nonce)", seen)

print()
if bad:
    print("UNDECLARED exception types observed:")
    for b in bad[:40]:
        print("  " + b)
    sys.exit(1)
print("every observation is inside the declared raise sets")
