"""Native cross-check of the pylsqpack model used by contracts/h3_noraise.py (trusted stubs, C16):
pending-block list of the decoder, which call raises what.   usage: /venv/bin/python tools/repro/c16_pylsqpack_model.py"""
import random
import sys

import pylsqpack


def expect(exc, fn, *a):
    try:
        fn(*a)
    except exc:
        return True
    except BaseException as e:  # noqa
        print("  unexpected %s: %s" % (type(e).__name__, e))
        return False
    print("  no exception (expected %s)" % exc.__name__)
    return False


ok = True
enc = pylsqpack.Encoder()
enc.apply_settings(4096, 16)
dec = pylsqpack.Decoder(4096, 16)
ctrl0, hdr0 = enc.encode(0, [(b"x-custom", b"value-%d" % i) for i in range(3)])
ctrl4, hdr4 = enc.encode(4, [(b"x-custom", b"value-1"), (b"x-other", b"zzz")])
pending, blocked = set(), set()
# feed_header: StreamBlocked -> pending + blocked
for sid, h in ((0, hdr0), (4, hdr4)):
    ok &= expect(pylsqpack.StreamBlocked, dec.feed_header, sid, h)
    pending.add(sid), blocked.add(sid)
# feed_header on a pending stream -> ValueError
ok &= expect(ValueError, dec.feed_header, 0, hdr0)
# resume_header: still blocked -> StreamBlocked; nothing pending -> ValueError
ok &= expect(pylsqpack.StreamBlocked, dec.resume_header, 0)
ok &= expect(ValueError, dec.resume_header, 8)
# feed_encoder returns the pending blocks whose flag is clear (ALL of them, again and again until resumed)
r = dec.feed_encoder(ctrl0)
ok &= set(r) <= pending and set(r) == {0}
r = dec.feed_encoder(ctrl4)
ok &= set(r) == {0, 4}
ok &= set(dec.feed_encoder(b"")) == {0, 4}
# a resumed block is removed; it does not block again (assumption Q1)
dec.resume_header(0)
ok &= set(dec.feed_encoder(b"")) == {4}
dec.resume_header(4)
ok &= expect(ValueError, dec.resume_header, 4)
# malformed instruction streams
ok &= expect(pylsqpack.EncoderStreamError, dec.feed_encoder, b"\xff" * 13)
ok &= expect(pylsqpack.DecoderStreamError, pylsqpack.Encoder().feed_decoder, b"\x00\x00" + b"\xff" * 11)
# apply_settings is total over the varint range
for cap, bl in ((0, 0), (2**32 - 1, 0), (2**32, 2**32), (2**62 - 1, 2**62 - 1)):
    try:
        pylsqpack.Encoder().apply_settings(max_table_capacity=cap, blocked_streams=bl)
    except BaseException as e:  # noqa
        print("  apply_settings(%d, %d): %s" % (cap, bl, type(e).__name__))
        ok = False
# random header blocks / instruction streams: only the declared exceptions
rnd = random.Random(16)
for _ in range(3000):
    d = pylsqpack.Decoder(4096, 16)
    data = bytes(rnd.randrange(256) for _ in range(rnd.randrange(0, 24)))
    try:
        d.feed_encoder(data)
    except pylsqpack.EncoderStreamError:
        pass
    try:
        d.feed_header(rnd.randrange(0, 64) * 4, bytes(rnd.randrange(256) for _ in range(rnd.randrange(0, 24))))
    except (pylsqpack.StreamBlocked, pylsqpack.DecompressionFailed):
        pass
    for sid in d.feed_encoder(b""):
        try:
            d.resume_header(sid)
        except pylsqpack.DecompressionFailed:
            pass
print("PASS" if ok else "FAIL")
sys.exit(0 if ok else 1)
