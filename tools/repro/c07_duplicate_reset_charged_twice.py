"""C07: a duplicated (or retransmitted) RESET_STREAM is charged to the connection flow-control window twice:
a peer that stays within the advertised limits is accused of FLOW_CONTROL_ERROR."""
import sys
sys.path.insert(0, "/repo")
from tests.test_connection import client_and_server, transfer, roundtrip, CLIENT_ADDR, SERVER_ADDR
from aioquic.quic import events

MAX_DATA = 10000
with client_and_server(server_options={"max_data": MAX_DATA, "max_stream_data": MAX_DATA}) as (client, server):
    sid = client.get_next_available_stream_id()
    # the client writes 6000 bytes but they are lost; it then abandons the stream: RESET_STREAM(final size 6000)
    client.send_stream_data(sid, b"x" * 6000)
    for data, addr in client.datagrams_to_send(now=1.0):
        pass  # lost
    client.reset_stream(sid, 7)
    reset_dgrams = [d for d, _ in client.datagrams_to_send(now=1.1)]
    assert reset_dgrams
    # the network duplicates the datagram that carries the RESET_STREAM (or: it is retransmitted after a spurious loss)
    for rep in range(2):
        for d in reset_dgrams:
            server.receive_datagram(d, CLIENT_ADDR, now=1.2 + rep / 10)
    print("server charged", server._local_max_data.used, "bytes of", server._local_max_data.value, "; the peer claimed 6000 in total")
    ev = server.next_event(); closed = None
    while ev is not None:
        if isinstance(ev, events.ConnectionTerminated): closed = ev
        ev = server.next_event()
    cp = server._close_event
    if cp is not None or server._local_max_data.used > 6000:
        print("FAIL: compliant peer accused / overcharged:", cp, "used =", server._local_max_data.used)
        sys.exit(1)
    print("PASS")
