"""Native reproduction (C01 sentence 2 / C10 'FIN re-offered'): a FIN-only STREAM frame is taken out of the send half by
get_frame() BEFORE QuicPacketBuilder.start_frame() is asked for room; when the congestion window (flight budget) has
no room, start_frame raises QuicPacketBuilderStop and the FIN is neither sent nor pending any more: end-of-stream is
never delivered although the network delivers every datagram afterwards."""
import os
import sys

sys.path.insert(0, os.path.join(os.path.dirname(__file__), "..", ".."))
from aioquic.quic.configuration import QuicConfiguration
from aioquic.quic.connection import QuicConnection
from aioquic.quic import events

HERE = "/repo/tests"
CLIENT_ADDR, SERVER_ADDR = ("1.2.3.4", 1234), ("2.3.4.5", 4433)


def pair():
    cc = QuicConfiguration(is_client=True)
    cc.load_verify_locations(cafile=os.path.join(HERE, "pycacert.pem"))
    sc = QuicConfiguration(is_client=False)
    sc.load_cert_chain(os.path.join(HERE, "ssl_cert.pem"), os.path.join(HERE, "ssl_key.pem"))
    c = QuicConnection(configuration=cc)
    s = QuicConnection(configuration=sc, original_destination_connection_id=c.original_destination_connection_id)
    c.connect(SERVER_ADDR, now=0.0)
    return c, s


def shuttle(a, b, now, rounds=10):
    for _ in range(rounds):
        moved = False
        for d, _addr in a.datagrams_to_send(now=now):
            b.receive_datagram(d, CLIENT_ADDR, now=now)
            moved = True
        for d, _addr in b.datagrams_to_send(now=now):
            a.receive_datagram(d, SERVER_ADDR, now=now)
            moved = True
        if not moved:
            break


def events_of(conn):
    out = []
    while True:
        e = conn.next_event()
        if e is None:
            return out
        out.append(e)


c, s = pair()
now = 0.0
for _ in range(6):
    now += 0.01
    shuttle(c, s, now)
events_of(c), events_of(s)
sid_data, sid_fin = c.get_next_available_stream_id(), None
c.send_stream_data(sid_data, b"")  # open
sid_fin = c.get_next_available_stream_id()
c.send_stream_data(sid_fin, b"hello")  # data first, delivered
now += 0.01
shuttle(c, s, now)
# bulk data on the first stream fills each packet completely; the application also closes the other stream with a
# FIN-only write: in the same packet, right after the bulk frame, no room is left for the FIN frame
c.send_stream_data(sid_data, bytes(200000))
c.send_stream_data(sid_fin, b"", end_stream=True)
held = c.datagrams_to_send(now=now)
# afterwards the network behaves: everything is delivered, timers fire, acks flow
for d, _ in held:
    s.receive_datagram(d, CLIENT_ADDR, now=now)
got_fin = False
for step in range(400):
    now += 0.05
    for conn in (c, s):
        t = conn.get_timer()
        if t is not None and t <= now:
            conn.handle_timer(now=now)
    shuttle(c, s, now)
    for e in events_of(s):
        if isinstance(e, events.StreamDataReceived) and e.stream_id == sid_fin and e.end_stream:
            got_fin = True
    if got_fin:
        break
if got_fin:
    print("PASS: end-of-stream of stream %d delivered" % sid_fin)
    sys.exit(0)
st = c._streams.get(sid_fin)
print("FAIL: end-of-stream of stream %d was written but never delivered after %d well-behaved network rounds; sender state: pending_eof=%s buffer_is_empty=%s is_finished=%s" % (sid_fin, step + 1, st.sender._pending_eof if st else None, st.sender.buffer_is_empty if st else None, st.sender.is_finished if st else None))
sys.exit(1)
