# D2: sample padding is not budgeted - start_frame admits a 1-byte frame into the last byte of the datagram budget,
# _end_packet then pads the payload to 2 bytes (header-protection sample) => the packet exceeds the budget by one byte.
from aioquic.quic.packet_builder import QuicPacketBuilder
from aioquic.quic.packet import QuicPacketType, QuicFrameType
from aioquic.quic.crypto import CryptoPair
from aioquic.tls import CipherSuite

# (a) anti-amplification budget exceeded by one byte (server, 1-RTT PING probe, 28 bytes of budget left)
b = QuicPacketBuilder(host_cid=bytes(8), peer_cid=bytes(8), version=1, is_client=False, max_datagram_size=1200)
b.max_total_bytes = 28     # = 3 * bytes_received - bytes_sent of an unvalidated path
c = CryptoPair(); c.send.setup(cipher_suite=CipherSuite.AES_128_GCM_SHA256, secret=bytes(32), version=1); c.recv.setup(cipher_suite=CipherSuite.AES_128_GCM_SHA256, secret=bytes(32), version=1)
b.start_packet(QuicPacketType.ONE_RTT, c)
b.start_frame(QuicFrameType.PING)
d, p = b.flush()
print("(a) max_total_bytes=28 -> datagram lengths", [len(x) for x in d], "total", sum(len(x) for x in d))

# (b) datagram budget == max_datagram_size: BufferWriteError escapes (client Initial with a 1154-byte token)
b = QuicPacketBuilder(host_cid=bytes(8), peer_cid=bytes(8), version=1, is_client=True, max_datagram_size=1200, peer_token=bytes(1154))
c = CryptoPair(); c.setup_initial(bytes(8), is_client=True, version=1)
b.start_packet(QuicPacketType.INITIAL, c)
b.start_frame(QuicFrameType.PING)
try:
    b.flush(); print("(b) no error")
except Exception as e:
    print("(b)", type(e).__name__, e)
