"""Server role, client authentication requested: a Certificate message whose 2nd chain entry is not valid DER makes
_set_peer_certificate raise ValueError (not a tls.Alert) AFTER _peer_certificate was stored and the state is left at
SERVER_EXPECT_CERTIFICATE.  If the embedding keeps the context alive (QuicConnection only converts tls.Alert), a second,
empty Certificate + a correctly MAC'd Finished complete the handshake with _peer_certificate = a certificate whose
private key the client never proved to hold (no CertificateVerify was ever processed)."""
import datetime
from cryptography import x509
from cryptography.hazmat.primitives import hashes
from cryptography.hazmat.primitives.asymmetric import ec
from cryptography.hazmat.primitives.serialization import Encoding
from aioquic import tls
from aioquic.buffer import Buffer
from aioquic.tls import Context, Epoch, State


def make_cert(cn):
    key = ec.generate_private_key(ec.SECP256R1())
    name = x509.Name([x509.NameAttribute(x509.NameOID.COMMON_NAME, cn)])
    now = datetime.datetime.now(datetime.timezone.utc)
    cert = (x509.CertificateBuilder().subject_name(name).issuer_name(name).public_key(key.public_key())
            .serial_number(x509.random_serial_number()).not_valid_before(now - datetime.timedelta(days=1))
            .not_valid_after(now + datetime.timedelta(days=10))
            .add_extension(x509.SubjectAlternativeName([x509.DNSName(cn)]), critical=False).sign(key, hashes.SHA256()))
    return cert, key


def bufs():
    return {e: Buffer(capacity=8192) for e in (Epoch.INITIAL, Epoch.HANDSHAKE, Epoch.ONE_RTT)}


def split(data):
    out = []
    while data:
        n = 4 + int.from_bytes(data[1:4], "big")
        out.append(data[:n]); data = data[n:]
    return out


SCERT, SKEY = make_cert("example.com")
VICTIM, _victim_key_never_used = make_cert("victim.example")

client = Context(is_client=True, cadata=SCERT.public_bytes(Encoding.PEM), server_name="example.com")
server = Context(is_client=False)
server.certificate, server.certificate_private_key = SCERT, SKEY
server._request_client_certificate = True

cb = bufs(); client.handle_message(b"", cb)
sb = bufs(); server.handle_message(cb[Epoch.INITIAL].data, sb)
assert server.state == State.SERVER_EXPECT_CERTIFICATE
flight = split(sb[Epoch.INITIAL].data) + split(sb[Epoch.HANDSHAKE].data)
cb = bufs()
for m in flight[:-1]:            # everything but the server Finished: the adversary finishes the transcript by hand
    client.handle_message(m, cb)
assert client.state == State.CLIENT_EXPECT_FINISHED
ks = client.key_schedule
ks.update_hash(flight[-1])

def msg(push, obj):
    b = Buffer(capacity=4096); push(b, obj); return b.data

m1 = msg(tls.push_certificate, tls.Certificate(request_context=b"", certificates=[(VICTIM.public_bytes(Encoding.DER), b""), (b"not DER", b"")]))
m2 = msg(tls.push_certificate, tls.Certificate(request_context=b"", certificates=[]))
ks.update_hash(m1); ks.update_hash(m2)
m3 = msg(tls.push_finished, tls.Finished(verify_data=ks.finished_verify_data(client._enc_key)))

sb = bufs()
try:
    server.handle_message(m1, sb)
    print("no exception?!")
except Exception as e:
    print("1st Certificate ->", type(e).__name__, "is tls.Alert:", isinstance(e, tls.Alert), "| state", server.state.name, "| peer cert set:", server._peer_certificate is not None)
server.handle_message(m2, sb)
print("2nd (empty) Certificate -> state", server.state.name)
server.handle_message(m3, sb)
import sys
if server._peer_certificate is None:
    print("PASS: Finished -> state", server.state.name, "| no peer certificate recorded (the unparsable Certificate message was rejected with an alert before anything was stored)")
    sys.exit(0)
print("FAIL: Finished -> state", server.state.name, "| peer certificate:", server._peer_certificate.subject.rfc4514_string(), "| CertificateVerify processed: never")
sys.exit(1)
