"""
C16 finding: H3Connection.handle_event() lets an AssertionError
("cannot call write() after reset()") escape when the peer's STOP_SENDING for
one of our QPACK streams has been processed by the transport before the
application feeds an earlier StreamDataReceived event to the HTTP/3 layer.

The transport resets the sending part of the stream as soon as it parses the
STOP_SENDING frame (QuicConnection._handle_stop_sending_frame), but the
StopSendingReceived event is queued *behind* the stream data event.  While
handling the stream data the HTTP/3 layer writes to the (already reset)
QPACK stream:

  case 1: SETTINGS on the peer's control stream  -> _handle_control_frame
          writes the encoder's reply to our QPACK encoder stream
  case 2: HEADERS on a request stream            -> _decode_headers writes
          the decoder's reply to our QPACK decoder stream

Both writes happen even when there are zero bytes to write, and
QuicStreamSender.write() asserts that the stream was not reset.

Run as:  cd /repo && /venv/bin/python /tmp/mut/finding_c16_stop_sending.py
Prints the exception(s) and exits 1 when the defect is present, prints PASS and
exits 0 otherwise.  Uses a real client/server QuicConnection pair driven in
memory; only the certificates are taken from the tests directory.
"""

import os
import ssl
import sys
import time
import traceback

if os.path.isdir(os.path.join(os.getcwd(), "src", "aioquic")):
    sys.path.insert(0, os.path.join(os.getcwd(), "src"))

import aioquic  # noqa: E402
from aioquic.h3.connection import (  # noqa: E402
    H3_ALPN,
    FrameType,
    H3Connection,
    encode_frame,
    encode_settings,
)
from aioquic.quic.configuration import QuicConfiguration  # noqa: E402
from aioquic.quic.connection import QuicConnection  # noqa: E402

TESTS = os.path.join(os.getcwd(), "tests")
if not os.path.exists(os.path.join(TESTS, "ssl_cert.pem")):
    TESTS = os.path.join(os.path.dirname(aioquic.__file__), "..", "..", "tests")

CLIENT_ADDR = ("1.2.3.4", 1234)
SERVER_ADDR = ("2.3.4.5", 4433)


def transfer(sender, receiver):
    from_addr = CLIENT_ADDR if sender._is_client else SERVER_ADDR
    for data, _ in sender.datagrams_to_send(now=time.time()):
        receiver.receive_datagram(data, from_addr, now=time.time())


def drain(quic):
    events = []
    while True:
        event = quic.next_event()
        if event is None:
            return events
        events.append(event)


def make_pair():
    client_conf = QuicConfiguration(is_client=True, alpn_protocols=H3_ALPN)
    client_conf.verify_mode = ssl.CERT_NONE
    server_conf = QuicConfiguration(is_client=False, alpn_protocols=H3_ALPN)
    server_conf.load_cert_chain(
        os.path.join(TESTS, "ssl_cert.pem"), os.path.join(TESTS, "ssl_key.pem")
    )
    client = QuicConnection(configuration=client_conf)
    client._ack_delay = 0
    server = QuicConnection(
        configuration=server_conf,
        original_destination_connection_id=client.original_destination_connection_id,
    )
    server._ack_delay = 0

    client.connect(SERVER_ADDR, now=time.time())
    for _ in range(3):
        transfer(client, server)
        transfer(server, client)
    drain(client)
    drain(server)
    return client, server


def feed_server(server, h3_server, datagrams):
    """
    Deliver all datagrams to the server transport first, and only then hand the
    queued events to the HTTP/3 layer (as an asyncio protocol would do when
    several datagrams are read in a row, or when both frames share a packet).
    """
    for data, _ in datagrams:
        server.receive_datagram(data, CLIENT_ADDR, now=time.time())
    problems = []
    for event in drain(server):
        try:
            h3_server.handle_event(event)
        except Exception as exc:
            traceback.print_exc()
            problems.append("%r while handling %r" % (exc, event))
    return problems


def case_encoder_stream():
    """
    SETTINGS on the control stream, then STOP_SENDING on the server's QPACK
    encoder stream.
    """
    client, server = make_pair()
    h3_server = H3Connection(server)
    encoder_stream_id = h3_server._local_encoder_stream_id

    # let the client learn about the server's unidirectional streams
    transfer(server, client)
    drain(client)

    # raw client: control stream with a SETTINGS frame
    control_stream_id = client.get_next_available_stream_id(is_unidirectional=True)
    client.send_stream_data(
        control_stream_id,
        b"\x00" + encode_frame(FrameType.SETTINGS, encode_settings({1: 4096, 7: 16})),
    )
    first = client.datagrams_to_send(now=time.time())
    client.stop_stream(encoder_stream_id, 0)
    second = client.datagrams_to_send(now=time.time())

    return feed_server(server, h3_server, first + second)


def case_decoder_stream():
    """
    A regular request (HEADERS), then STOP_SENDING on the server's QPACK decoder
    stream.
    """
    client, server = make_pair()
    h3_client = H3Connection(client)
    h3_server = H3Connection(server)
    decoder_stream_id = h3_server._local_decoder_stream_id

    # exchange control / QPACK streams and SETTINGS in both directions
    for _ in range(2):
        transfer(client, server)
        for event in drain(server):
            h3_server.handle_event(event)
        transfer(server, client)
        for event in drain(client):
            h3_client.handle_event(event)

    stream_id = client.get_next_available_stream_id()
    h3_client.send_headers(
        stream_id,
        [
            (b":method", b"GET"),
            (b":scheme", b"https"),
            (b":authority", b"localhost"),
            (b":path", b"/"),
        ],
        end_stream=True,
    )
    first = client.datagrams_to_send(now=time.time())
    client.stop_stream(decoder_stream_id, 0)
    second = client.datagrams_to_send(now=time.time())

    return feed_server(server, h3_server, first + second)


def main():
    failed = False
    for name, case in (
        ("encoder stream (SETTINGS then STOP_SENDING)", case_encoder_stream),
        ("decoder stream (HEADERS then STOP_SENDING)", case_decoder_stream),
    ):
        try:
            problems = case()
        except Exception as exc:
            traceback.print_exc()
            problems = ["scenario could not be driven: %r" % (exc,)]
        if problems:
            failed = True
            for problem in problems:
                print("FAIL [%s]: H3Connection.handle_event raised %s" % (name, problem))
        else:
            print("ok   [%s]: no exception escaped handle_event" % name)
    if failed:
        return 1
    print("PASS")
    return 0


if __name__ == "__main__":
    sys.exit(main())
