"""C16 finding: after the HTTP/3 layer closes the connection with a LONG error message (it quotes a peer-supplied header
name), QuicConnection.datagrams_to_send() raises QuicPacketBuilderStop: the close frame announces
overhead + len(reason) bytes to QuicPacketBuilder.start_frame, which refuses what does not fit the packet, and the close
branch of datagrams_to_send has no handler.  The transport can then never emit its closing packet.
Obligation: QuicConnection._write_connection_close_frame:raises.QuicPacketBuilderStop.if
usage: PYTHONPATH=<tree>/src /venv/bin/python tools/repro/c16_close_reason_truncate.py   (FAIL unchanged, PASS with
tools/fixes/c16_close_reason_truncate.patch)"""
import os
import sys
import time

sys.path.insert(0, os.path.dirname(os.path.abspath(__file__)))
sys.path.insert(0, "/repo/tests")
from _c16_common import frame, run_cases  # noqa

from aioquic.h3.connection import H3_ALPN, FrameType, H3Connection  # noqa
from aioquic.quic.configuration import QuicConfiguration  # noqa
from aioquic.quic.connection import QuicConnection  # noqa
from utils import SERVER_CACERTFILE, SERVER_CERTFILE, SERVER_KEYFILE  # noqa

CLIENT_ADDR, SERVER_ADDR = ("1.2.3.4", 1234), ("2.3.4.5", 4433)


def transfer(a, b):
    n = 0
    for data, _ in a.datagrams_to_send(now=time.time()):
        n += 1
        b.receive_datagram(data, CLIENT_ADDR if a._is_client else SERVER_ADDR, now=time.time())
    return n


def pair():
    cc = QuicConfiguration(is_client=True, alpn_protocols=H3_ALPN)
    cc.load_verify_locations(cafile=SERVER_CACERTFILE)
    sc = QuicConfiguration(is_client=False, alpn_protocols=H3_ALPN)
    sc.load_cert_chain(SERVER_CERTFILE, SERVER_KEYFILE)
    c = QuicConnection(configuration=cc)
    c.connect(SERVER_ADDR, now=time.time())
    s = QuicConnection(configuration=sc, original_destination_connection_id=c.original_destination_connection_id)
    while transfer(c, s) + transfer(s, c):
        pass
    return c, s


def drain(q, h3):
    ev = q.next_event()
    out = []
    while ev is not None:
        out.append(ev)
        h3.handle_event(ev)
        ev = q.next_event()
    return out


def long_header_name(n):
    def run():
        c, s = pair()
        h3c, h3s = H3Connection(c), H3Connection(s)
        while transfer(c, s) + transfer(s, c):
            pass
        drain(c, h3c), drain(s, h3s)
        # the peer (client) sends a request whose header NAME is n bytes of upper-case letters: the server's HTTP/3 layer
        # answers with MessageError("Header b'XXXX...' contains invalid characters") -> close(H3_MESSAGE_ERROR, reason)
        sid = c.get_next_available_stream_id()
        enc, block = h3c._encoder.encode(sid, [(b":method", b"GET"), (b":scheme", b"https"), (b":authority", b"x"), (b":path", b"/"), (b"X" * n, b"v")])
        c.send_stream_data(h3c._local_encoder_stream_id, enc)
        c.send_stream_data(sid, frame(FrameType.HEADERS, block), end_stream=True)
        while transfer(c, s):
            pass
        drain(s, h3s)
        if s._close_event is None:
            return "server HTTP/3 layer did not close the connection"
        reason = s._close_event.reason_phrase
        datagrams = s.datagrams_to_send(now=time.time())  # must not raise
        if not datagrams:
            return "no closing packet emitted (reason %d bytes)" % len(reason)
        for data, _ in datagrams:
            c.receive_datagram(data, SERVER_ADDR, now=time.time())
        got = c._close_event  # latched by the CONNECTION_CLOSE frame (reported as ConnectionTerminated after the drain period)
        if got is None or got.error_code != 0x10E:
            return "client did not see the H3_MESSAGE_ERROR close: %r" % (got,)

    return run


sys.exit(run_cases([("header name of 40 bytes", long_header_name(40)), ("header name of 1500 bytes", long_header_name(1500)), ("header name of 3000 bytes", long_header_name(3000))]))
