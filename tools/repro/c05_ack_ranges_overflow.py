"""C05 finding (key-holding peer, after the handshake): the set of packet numbers to acknowledge grows without bound, and
_write_ack_frame reserves ACK_FRAME_CAPACITY = 64 bytes whatever the number of ranges.  A peer that sends every other
packet number (and never acknowledges our ACK frames, so nothing is pruned) makes the ACK frame outgrow the datagram:
push_ack_frame raises BufferWriteError, which escapes datagrams_to_send - on every later call.
Expected by C05: datagrams_to_send keeps returning normally."""
from aioquic import tls
from aioquic.quic.packet import QuicFrameType, QuicPacketType
from aioquic.quic.packet_builder import QuicPacketBuilder

from c05_common import CLIENT_ADDR, guarded, handshake, pair

c, s = pair()
now = handshake(c, s)
assert s._handshake_complete and c._handshake_complete


def ping_packet(pn):
    """a correctly protected 1-RTT packet with packet number pn holding one PING frame, built with the client's keys"""
    b = QuicPacketBuilder(host_cid=c.host_cid, peer_cid=c._peer_cid.cid, version=c._version, is_client=True, packet_number=pn, max_datagram_size=1200)
    b.start_packet(QuicPacketType.ONE_RTT, c._cryptos[tls.Epoch.ONE_RTT])
    b.start_frame(QuicFrameType.PING, capacity=1)
    datagrams, _ = b.flush()
    return datagrams[0]


pn = c._packet_number + 10
for i in range(900):
    now += 0.001
    guarded("server.receive_datagram(1-RTT PING, packet number %d)" % pn, s.receive_datagram, ping_packet(pn), CLIENT_ADDR, now)
    pn += 2  # leave a gap: every packet starts a new ACK range
    # the server behaves normally: it sends its ACKs (which the peer never acknowledges)
    guarded("server.datagrams_to_send after %d gaps" % (i + 1), s.datagrams_to_send, now)
    t = guarded("get_timer", s.get_timer)
    if t is not None and t <= now:
        guarded("handle_timer", s.handle_timer, now)
print("PASS")
