"""Native reproduction (C20 'enabling the qlog logger never changes what a connection does, and logging never raises'):
QuicLoggerTrace._encode_http3_headers does h[0].decode("utf8") / h[1].decode("utf8") with the strict error handler.
HTTP header values are arbitrary octets (RFC 9110 5.5: obs-text %x80-FF is legal in field values), QPACK carries them
unchanged and aioquic's own header validation accepts them - so with a qlog logger configured

  * H3Connection.send_headers() raises UnicodeDecodeError AFTER the QPACK encoder has processed the headers and after the
    stream was marked as finished (end_stream=True): nothing is sent, the HTTP/3 state is left half-updated;
  * on the receive side H3Connection.handle_event() raises UnicodeDecodeError for a HEADERS frame a (logging-free) peer
    sent: no HeadersReceived event is delivered - a remote peer changes the behaviour of an endpoint merely because that
    endpoint has logging on (and crashes an asyncio server's event handler).

The same two scenarios run to completion when no logger is configured.  The script runs each scenario twice (logger off /
logger on) and compares the delivered events; it also checks that the produced qlog document is JSON-serialisable.

usage: /venv/bin/python tools/repro/c20_h3_headers_non_utf8.py      (PYTHONPATH=<scratch>/src to test a patched copy)
"""
import json
import os
import sys

from aioquic.h3.connection import H3_ALPN, H3Connection
from aioquic.h3.events import HeadersReceived
from aioquic.quic.configuration import QuicConfiguration
from aioquic.quic.connection import QuicConnection
from aioquic.quic.logger import QuicLogger

HERE = "/repo/tests"
CA, SA = ("1.2.3.4", 1234), ("2.3.4.5", 4433)
HEADERS = [
    (b":method", b"GET"),
    (b":scheme", b"https"),
    (b":authority", b"localhost"),
    (b":path", b"/"),
    (b"x-legacy", b"caf\xe9 \xff\xfe"),  # ISO-8859-1 / arbitrary octets: legal obs-text, not UTF-8
]


def run(client_log, server_log):
    """-> (outcome string, [server-side H3 events], [QuicLogger...])"""
    loggers = []
    cc = QuicConfiguration(is_client=True, alpn_protocols=H3_ALPN)
    cc.load_verify_locations(cafile=os.path.join(HERE, "pycacert.pem"))
    sc = QuicConfiguration(is_client=False, alpn_protocols=H3_ALPN)
    sc.load_cert_chain(os.path.join(HERE, "ssl_cert.pem"), os.path.join(HERE, "ssl_key.pem"))
    if client_log:
        cc.quic_logger = QuicLogger()
        loggers.append(cc.quic_logger)
    if server_log:
        sc.quic_logger = QuicLogger()
        loggers.append(sc.quic_logger)
    c = QuicConnection(configuration=cc)
    s = QuicConnection(configuration=sc, original_destination_connection_id=c.original_destination_connection_id)
    c.connect(SA, now=0.0)
    now = [0.0]
    h3 = {}
    got = []

    def shuttle():
        for _ in range(10):
            moved = False
            for d, _a in c.datagrams_to_send(now=now[0]):
                s.receive_datagram(d, CA, now=now[0])
                moved = True
            for d, _a in s.datagrams_to_send(now=now[0]):
                c.receive_datagram(d, SA, now=now[0])
                moved = True
            ev = s.next_event()
            while ev is not None:
                if "s" in h3:
                    got.extend(h3["s"].handle_event(ev))
                ev = s.next_event()
            ev = c.next_event()
            while ev is not None:
                if "c" in h3:
                    h3["c"].handle_event(ev)
                ev = c.next_event()
            if not moved:
                return

    for _ in range(4):
        now[0] += 0.01
        shuttle()
    h3["c"] = H3Connection(c)
    h3["s"] = H3Connection(s)
    sid = c.get_next_available_stream_id()
    try:
        h3["c"].send_headers(sid, HEADERS, end_stream=True)
        for _ in range(4):
            now[0] += 0.01
            shuttle()
    except Exception as e:  # noqa
        return "raised %s: %s" % (type(e).__name__, e), got, loggers
    return "ok", got, loggers


def summary(events):
    return [(type(e).__name__, e.headers, e.stream_ended) for e in events if isinstance(e, HeadersReceived)]


fail = []
base_out, base_ev, _ = run(False, False)
if base_out != "ok" or not summary(base_ev):
    print("unexpected: the scenario does not complete even without logging:", base_out, summary(base_ev))
    sys.exit(2)
for name, cl, sl in (("sender logs", True, False), ("receiver logs", False, True), ("both log", True, True)):
    out, ev, loggers = run(cl, sl)
    same = out == base_out and summary(ev) == summary(base_ev)
    print("%-14s outcome=%s  HeadersReceived delivered=%d (without logging: %d)" % (name, out[:90], len(summary(ev)), len(summary(base_ev))))
    if not same:
        fail.append(name)
    for lg in loggers:
        try:
            json.dumps(lg.to_dict())
        except Exception as e:  # noqa
            print("   qlog document not JSON-serialisable: %s" % e)
            fail.append(name + " (json)")
if fail:
    print("FAIL: logging changes behaviour for non-UTF-8 header values: %s" % ", ".join(fail))
    sys.exit(1)
print("PASS: same events with and without logging; qlog documents serialise")
