"""C16 finding: malformed HTTP/3 frame payloads make H3Connection.handle_event RAISE instead of closing the connection.

    SETTINGS whose last identifier or value is cut      -> BufferReadError   (parse_settings)
    MAX_PUSH_ID with an empty payload                   -> BufferReadError   (parse_max_push_id)
    MAX_PUSH_ID with trailing bytes                     -> AssertionError    (parse_max_push_id)
    PUSH_PROMISE with an empty payload                  -> BufferReadError   (_handle_request_or_push_frame)

Everything fed in is peer-controlled stream data.  Obligations: parse_settings:no-escape.BufferReadError,
parse_max_push_id:no-escape.{BufferReadError,AssertionError}, H3Connection._handle_request_or_push_frame:no-escape.BufferReadError.
usage: PYTHONPATH=<tree>/src /venv/bin/python tools/repro/c16_h3_malformed_frames.py   (FAIL on the unchanged tree, PASS with
tools/fixes/c16_h3_malformed_frames.patch)"""
import os
import sys

sys.path.insert(0, os.path.dirname(os.path.abspath(__file__)))
from _c16_common import FakeQuicConnection, frame, is_h3_code, run_cases  # noqa

from aioquic.buffer import encode_uint_var  # noqa
from aioquic.h3.connection import FrameType, H3Connection, StreamType  # noqa
from aioquic.quic.events import StreamDataReceived  # noqa

SETTINGS_OK = frame(FrameType.SETTINGS, encode_uint_var(0x1) + encode_uint_var(4096))


def control(is_client, *frames):
    """feed the frames on the peer's control stream; the layer must close with an HTTP/3 code"""

    def run():
        quic = FakeQuicConnection(is_client=is_client)
        h3 = H3Connection(quic)
        sid = 3 if is_client else 2
        data = encode_uint_var(StreamType.CONTROL) + b"".join(frames)
        h3.handle_event(StreamDataReceived(data=data, end_stream=False, stream_id=sid))
        if quic.closed is None:
            return "connection not closed"
        if not is_h3_code(quic.closed[0]):
            return "closed with non-HTTP/3 code 0x%x" % quic.closed[0]

    return run


def push_promise_empty():
    quic = FakeQuicConnection(is_client=True)
    h3 = H3Connection(quic)
    sid = quic.get_next_available_stream_id()
    h3.send_headers(sid, [(b":method", b"GET"), (b":scheme", b"https"), (b":authority", b"localhost"), (b":path", b"/")], end_stream=True)
    h3.handle_event(StreamDataReceived(data=frame(FrameType.PUSH_PROMISE, b""), end_stream=False, stream_id=sid))
    if quic.closed is None or not is_h3_code(quic.closed[0]):
        return "not closed with an HTTP/3 code: %r" % (quic.closed,)


sys.exit(
    run_cases(
        [
            ("SETTINGS value cut", control(True, frame(FrameType.SETTINGS, encode_uint_var(0x1) + b"\x40"))),
            ("SETTINGS value missing", control(True, frame(FrameType.SETTINGS, encode_uint_var(0x1)))),
            ("SETTINGS identifier cut", control(False, frame(FrameType.SETTINGS, b"\x80\x00"))),
            ("MAX_PUSH_ID empty", control(False, SETTINGS_OK, frame(FrameType.MAX_PUSH_ID, b""))),
            ("MAX_PUSH_ID trailing bytes", control(False, SETTINGS_OK, frame(FrameType.MAX_PUSH_ID, b"\x05\x00"))),
            ("PUSH_PROMISE empty", push_promise_empty),
        ]
    )
)
