"""Native reproduction (C05 / C11: TLS input can only produce tls.Alert, never another exception).

A client tls.Context runs a handshake against a real server tls.Context; the server's flight is intercepted and its
Certificate / CertificateVerify messages are replaced (any server can do that: nothing is authenticated before the
CertificateVerify check, and tls.Context checks the signature BEFORE it validates the certificate chain).

  case alg_ec_on_rsa     genuine RSA certificate, CertificateVerify.algorithm = ECDSA_SECP256R1_SHA256 (advertised by the client)
                         -> RSAPublicKey.verify(sig, data, ECDSA(..)) : TypeError (missing argument)            (before the fix)
  case alg_rsa_on_ec     self-made EC P-256 certificate, algorithm = RSA_PSS_RSAE_SHA256
                         -> EllipticCurvePublicKey.verify(sig, data, PSS, SHA256) : TypeError (too many arguments)
  case alg_rsa_on_ed     self-made Ed25519 certificate, algorithm = RSA_PKCS1_SHA256 -> TypeError
  case x25519_cert       self-made certificate whose subject key is an X25519 key (cannot sign at all)
                         -> X25519PublicKey has no attribute 'verify' : AttributeError
  case dsa_cert          self-made certificate with a DSA subject key, algorithm = RSA_PKCS1_SHA256 -> TypeError
  case ed_on_rsa         genuine RSA certificate, algorithm = ED25519 (no parameters) -> TypeError

usage: c05_tls_certificate_verify_keytype.py [case ...]     exit status 1 if any case raised a non-Alert"""
import datetime
import os
import sys

from cryptography import x509
from cryptography.hazmat.primitives import hashes, serialization
from cryptography.hazmat.primitives.asymmetric import dsa, ec, ed25519, rsa, x25519
from cryptography.x509.oid import NameOID

from aioquic import tls
from aioquic.buffer import Buffer
from aioquic.quic.configuration import QuicConfiguration
from aioquic.tls import Context

TESTS = os.environ.get("AIOQUIC_TESTS", "/repo/tests")


def buffers():
    return {e: Buffer(capacity=16384) for e in (tls.Epoch.INITIAL, tls.Epoch.HANDSHAKE, tls.Epoch.ONE_RTT)}


def split(data):
    out = []
    while data:
        n = 4 + int.from_bytes(data[1:4], "big")
        out.append(data[:n])
        data = data[n:]
    return out


def message(handshake_type, body):
    return bytes([handshake_type]) + len(body).to_bytes(3, "big") + body


def make_cert(subject_key):
    """a certificate for `subject_key`, signed by a throw-away RSA key (the chain is never looked at: the signature
    check comes first)"""
    issuer_key = rsa.generate_private_key(public_exponent=65537, key_size=2048)
    name = x509.Name([x509.NameAttribute(NameOID.COMMON_NAME, "localhost")])
    now = datetime.datetime.now(datetime.timezone.utc)
    cert = (
        x509.CertificateBuilder()
        .subject_name(name)
        .issuer_name(name)
        .public_key(subject_key)
        .serial_number(1)
        .not_valid_before(now - datetime.timedelta(days=1))
        .not_valid_after(now + datetime.timedelta(days=1))
        .sign(issuer_key, hashes.SHA256())
    )
    return cert.public_bytes(serialization.Encoding.DER)


def certificate_message(der):
    entry = len(der).to_bytes(3, "big") + der + (0).to_bytes(2, "big")
    return message(11, b"\x00" + len(entry).to_bytes(3, "big") + entry)


def certificate_verify_message(algorithm, signature=b"\x00" * 64):
    return message(15, int(algorithm).to_bytes(2, "big") + len(signature).to_bytes(2, "big") + signature)


def start():
    """client that has processed a genuine ServerHello + EncryptedExtensions; returns (client, genuine Certificate msg)"""
    client = Context(alpn_protocols=["hq-interop"], cafile=os.path.join(TESTS, "pycacert.pem"), is_client=True, server_name="localhost")
    client.handshake_extensions = [(tls.ExtensionType.QUIC_TRANSPORT_PARAMETERS, b"")]
    cfg = QuicConfiguration(is_client=False)
    cfg.load_cert_chain(os.path.join(TESTS, "ssl_cert.pem"), os.path.join(TESTS, "ssl_key.pem"))
    server = Context(alpn_protocols=["hq-interop"], is_client=False)
    server.certificate = cfg.certificate
    server.certificate_private_key = cfg.private_key
    server.handshake_extensions = [(tls.ExtensionType.QUIC_TRANSPORT_PARAMETERS, b"")]
    cb, sb = buffers(), buffers()
    client.handle_message(b"", cb)
    server.handle_message(cb[tls.Epoch.INITIAL].data, sb)
    client.handle_message(sb[tls.Epoch.INITIAL].data, buffers())  # genuine ServerHello
    flight = split(sb[tls.Epoch.HANDSHAKE].data)  # EncryptedExtensions, Certificate, CertificateVerify, Finished
    assert [m[0] for m in flight] == [8, 11, 15, 20], [m[0] for m in flight]
    client.handle_message(flight[0], buffers())
    assert client.state == tls.State.CLIENT_EXPECT_CERTIFICATE_REQUEST_OR_CERTIFICATE
    return client, flight[1]


SA = tls.SignatureAlgorithm
CASES = {
    "alg_ec_on_rsa": lambda genuine: [genuine, certificate_verify_message(SA.ECDSA_SECP256R1_SHA256)],
    "alg_rsa_on_ec": lambda genuine: [certificate_message(make_cert(ec.generate_private_key(ec.SECP256R1()).public_key())), certificate_verify_message(SA.RSA_PSS_RSAE_SHA256)],
    "alg_rsa_on_ed": lambda genuine: [certificate_message(make_cert(ed25519.Ed25519PrivateKey.generate().public_key())), certificate_verify_message(SA.RSA_PKCS1_SHA256)],
    "x25519_cert": lambda genuine: [certificate_message(make_cert(x25519.X25519PrivateKey.generate().public_key())), certificate_verify_message(SA.RSA_PKCS1_SHA256)],
    "dsa_cert": lambda genuine: [certificate_message(make_cert(dsa.generate_private_key(key_size=2048).public_key())), certificate_verify_message(SA.RSA_PKCS1_SHA256)],
    "ed_on_rsa": lambda genuine: [genuine, certificate_verify_message(SA.ED25519)],
}

if __name__ == "__main__":
    failed = False
    for name in sys.argv[1:] or sorted(CASES):
        client, genuine = start()
        try:
            for m in CASES[name](genuine):
                client.handle_message(m, buffers())
            print("case %s: no exception (state %s)" % (name, client.state))
        except tls.Alert as exc:
            print("case %s: PASS tls.%s: %s" % (name, type(exc).__name__, exc))
        except Exception as exc:  # noqa
            print("case %s: FAIL handle_message raised %s: %s" % (name, type(exc).__name__, exc))
            failed = True
    sys.exit(1 if failed else 0)
