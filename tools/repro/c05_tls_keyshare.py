"""C05 finding (TLS, pre-authentication): a ServerHello whose key share is malformed or names a group the client did not
offer makes a non-Alert exception escape tls.Context.handle_message -> QuicConnection._handle_crypto_frame (which only
converts tls.Alert) -> QuicConnection.receive_datagram:
  (a) X25519 key share of 5 bytes      -> ValueError raised by `cryptography` in decode_public_key
  (b) key share for an unknown group   -> AssertionError (`assert shared_key is not None`)
  (c) all-zero X25519 key share        -> ValueError raised by `cryptography` in exchange() (low-order point)
Expected by C05: the client closes with a CRYPTO_ERROR (illegal_parameter), receive_datagram returns normally."""
import os

from aioquic import tls
from aioquic.buffer import Buffer
from aioquic.quic.connection import QuicConnection

from c05_common import SERVER_ADDR, client_config, fail, guarded, initial_packet, run_until_terminated


def attempt(label, key_share):
    now = 1000.0
    client = QuicConnection(configuration=client_config())
    client.connect(SERVER_ADDR, now=now)
    assert client.datagrams_to_send(now=now)
    hello = tls.ServerHello(random=os.urandom(32), legacy_session_id=b"", cipher_suite=tls.CipherSuite.AES_128_GCM_SHA256,
                            compression_method=tls.CompressionMethod.NULL, key_share=key_share, supported_version=tls.TLS_VERSION_1_3)
    buf = Buffer(capacity=512)
    tls.push_server_hello(buf, hello)
    datagram = initial_packet(dcid=client.host_cid, scid=os.urandom(8), odcid=client.original_destination_connection_id, version=client._version, from_client=False, crypto_payload=buf.data)
    guarded("receive_datagram(ServerHello with %s)" % label, client.receive_datagram, datagram, SERVER_ADDR, now + 0.01)
    ev = run_until_terminated(client, now + 0.01, "client")
    if ev.error_code != 0x100 + int(tls.AlertDescription.illegal_parameter):
        fail("%s: closed with 0x%x instead of CRYPTO_ERROR illegal_parameter" % (label, ev.error_code))


attempt("a 5-byte X25519 key share", (tls.Group.X25519, b"\x01" * 5))
attempt("a key share for unknown group 0x9999", (0x9999, b"\x01" * 32))
attempt("an all-zero (low order) X25519 key share", (tls.Group.X25519, bytes(32)))
print("PASS")
