"""C16 known finding (no fix proposed): a peer STOP_SENDING for this endpoint's QPACK decoder stream, followed by any
request, makes H3Connection.handle_event raise AssertionError ("cannot call write() after reset()").

The transport resets the send half of the stream on STOP_SENDING (QuicConnection._handle_stop_sending_frame ->
QuicStreamSender.reset); H3Connection._decode_headers then calls QuicConnection.send_stream_data on that stream for EVERY header
block (even when the decoder has nothing to say), and QuicStreamSender.write asserts the stream was not reset.
Obligation: H3Connection._decode_headers#finding_stop_sending:no-escape.AssertionError  (the verified contracts assume the local
QPACK streams stay writable - assumption W of PROPS["C16"]).
usage: /venv/bin/python tools/repro/c16_stop_sending_qpack_stream.py   (prints FAIL on the unchanged tree)"""
import os
import sys
import time

sys.path.insert(0, os.path.dirname(os.path.abspath(__file__)))
sys.path.insert(0, "/repo/tests")
from _c16_common import run_cases  # noqa

from aioquic.h3.connection import H3_ALPN, H3Connection  # noqa
from aioquic.quic.configuration import QuicConfiguration  # noqa
from aioquic.quic.connection import QuicConnection  # noqa
from aioquic.quic.packet import QuicErrorCode  # noqa
from utils import SERVER_CACERTFILE, SERVER_CERTFILE, SERVER_KEYFILE  # noqa

CLIENT_ADDR, SERVER_ADDR = ("1.2.3.4", 1234), ("2.3.4.5", 4433)


def transfer(a, b):
    n = 0
    for data, _ in a.datagrams_to_send(now=time.time()):
        n += 1
        b.receive_datagram(data, CLIENT_ADDR if a._is_client else SERVER_ADDR, now=time.time())
    return n


def case():
    cc = QuicConfiguration(is_client=True, alpn_protocols=H3_ALPN)
    cc.load_verify_locations(cafile=SERVER_CACERTFILE)
    sc = QuicConfiguration(is_client=False, alpn_protocols=H3_ALPN)
    sc.load_cert_chain(SERVER_CERTFILE, SERVER_KEYFILE)
    c = QuicConnection(configuration=cc)
    c.connect(SERVER_ADDR, now=time.time())
    s = QuicConnection(configuration=sc, original_destination_connection_id=c.original_destination_connection_id)

    def pump(h3c=None, h3s=None):
        while transfer(c, s) + transfer(s, c):
            pass
        for q, h in ((c, h3c), (s, h3s)):
            ev = q.next_event()
            while ev is not None:
                if h is not None:
                    h.handle_event(ev)  # must not raise
                ev = q.next_event()

    pump()
    h3c, h3s = H3Connection(c), H3Connection(s)
    pump(h3c, h3s)
    # the peer (client) tells the server to stop sending on the server's QPACK decoder stream: a STOP_SENDING frame
    sid = h3s._local_decoder_stream_id
    stream = c._streams.get(sid) or c._get_or_create_stream(0x08, sid)
    stream.receiver.stop(QuicErrorCode.NO_ERROR)
    pump(h3c, h3s)
    # ... and then sends an ordinary request
    rid = c.get_next_available_stream_id()
    h3c.send_headers(rid, [(b":method", b"GET"), (b":scheme", b"https"), (b":authority", b"localhost"), (b":path", b"/")], end_stream=True)
    pump(h3c, h3s)


sys.exit(run_cases([("STOP_SENDING on QPACK decoder stream", case)]))
