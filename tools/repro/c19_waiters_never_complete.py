"""C19 - waiters that never finish (reproduction on the real classes, /venv/bin/python).

Two real QuicConnectionProtocol objects (client, server) on the real asyncio loop, joined by an in-memory
"network" (a DatagramTransport stand-in whose sendto() hands the datagram to the peer protocol with
loop.call_soon).  Nothing is dropped or reordered: the defects need no adversarial schedule, only an application
coroutine that calls the API at a legal but unlucky moment.

  A  connect(..., wait_connected=False)-style use (documented for 0-RTT): protocol.connect(addr, transmit=...) is called,
     the handshake completes while the application does something else, THEN the application awaits
     wait_connected().  HandshakeCompleted was processed while no waiter existed, `_connected` was left False, so
     wait_connected() creates a future nobody will ever complete: it hangs for ever on a healthy connection.
  B  wait_connected() after the connection terminated (handshake failed / closed before the coroutine ran): hangs.
  C  ping() after the connection terminated (idle timeout, close by either side): the waiter is filed after
     ConnectionTerminated was processed; the closed connection never acknowledges the ping: hangs.

C19: "every connect, ping and close waiter finishes exactly once, with success or a connection error".
Exit status 1 when at least one waiter hangs (the defect is present), 0 when all three finish.
"""
import asyncio
import os
import sys

from aioquic.asyncio.protocol import QuicConnectionProtocol
from aioquic.quic.configuration import QuicConfiguration
from aioquic.quic.connection import QuicConnection

TESTS = os.environ.get("AIOQUIC_TESTS", "/repo/tests")
CLIENT_ADDR = ("1.2.3.4", 1234)
SERVER_ADDR = ("2.3.4.5", 4433)


class Wire(asyncio.DatagramTransport):
    """in-memory transport: sendto() delivers to the peer protocol in a later loop iteration"""

    def __init__(self, loop, own_addr):
        super().__init__()
        self.loop, self.own_addr, self.peer = loop, own_addr, None

    def sendto(self, data, addr=None):
        if self.peer is not None:
            self.loop.call_soon(self.peer.datagram_received, bytes(data), self.own_addr)

    def close(self):
        pass


def make_pair(loop):
    ccfg = QuicConfiguration(is_client=True)
    ccfg.load_verify_locations(os.path.join(TESTS, "pycacert.pem"))
    ccfg.server_name = "localhost"
    scfg = QuicConfiguration(is_client=False)
    scfg.load_cert_chain(os.path.join(TESTS, "ssl_cert.pem"), os.path.join(TESTS, "ssl_key.pem"))
    client = QuicConnectionProtocol(QuicConnection(configuration=ccfg))
    cw, sw = Wire(loop, CLIENT_ADDR), Wire(loop, SERVER_ADDR)
    client.connection_made(cw)
    state = {"server": None}

    class ServerSide:
        # creates the server protocol on the first datagram (what QuicServer does, without the routing table)
        def datagram_received(self, data, addr):
            if state["server"] is None:
                from aioquic.buffer import Buffer
                from aioquic.quic.packet import pull_quic_header

                hdr = pull_quic_header(Buffer(data=data), host_cid_length=8)
                conn = QuicConnection(configuration=scfg, original_destination_connection_id=hdr.destination_cid)
                state["server"] = QuicConnectionProtocol(conn)
                state["server"].connection_made(sw)
            state["server"].datagram_received(data, addr)

    cw.peer = ServerSide()
    sw.peer = client
    return client, state


async def finishes(coro, what, timeout=2.0):
    try:
        await asyncio.wait_for(coro, timeout)
        print("  %-58s finished (success)" % what)
        return True
    except asyncio.TimeoutError:
        print("  %-58s NEVER FINISHES (still pending after %.0f s)" % (what, timeout))
        return False
    except ConnectionError as e:
        print("  %-58s finished (ConnectionError %s)" % (what, e))
        return True


async def scenario_a(loop):
    print("A  wait_connected() called after the handshake completed")
    client, state = make_pair(loop)
    client.connect(SERVER_ADDR)  # the application does not await wait_connected() yet (0-RTT style use)
    for _ in range(200):  # let the handshake run
        await asyncio.sleep(0)
    assert client._quic._handshake_complete, "handshake did not complete"
    ok = await finishes(client.wait_connected(), "wait_connected() on an established connection")
    client.close()
    return ok


async def scenario_bc(loop):
    print("B/C  wait_connected() / ping() called after the connection terminated")
    client, state = make_pair(loop)
    client.connect(SERVER_ADDR)
    for _ in range(200):
        await asyncio.sleep(0)
    client.close()
    await asyncio.wait_for(client.wait_closed(), 5)  # ConnectionTerminated has been processed
    ok_b = await finishes(client.wait_connected(), "wait_connected() after ConnectionTerminated")
    ok_c = await finishes(client.ping(), "ping() after ConnectionTerminated")
    return ok_b and ok_c


async def main():
    loop = asyncio.get_running_loop()
    a = await scenario_a(loop)
    bc = await scenario_bc(loop)
    return 0 if (a and bc) else 1


if __name__ == "__main__":
    rc = asyncio.run(main())
    print("RESULT:", "all waiters finish" if rc == 0 else "DEFECT PRESENT: a waiter never finishes")
    sys.exit(rc)
