"""C05 finding (TLS, pre-authentication, server side): a ClientHello whose server_name extension holds a non-ASCII byte
makes UnicodeDecodeError escape pull_server_name -> tls.Context.handle_message -> QuicConnection.receive_datagram of the
SERVER (the first Initial packet of any client).  Expected by C05: the server closes with a CRYPTO_ERROR."""
import os

from aioquic import tls
from aioquic.quic.connection import QuicConnection

from c05_common import CLIENT_ADDR, SERVER_ADDR, client_config, fail, guarded, initial_packet, run_until_terminated, server_config

now = 1000.0
# a genuine ClientHello, produced by a real client for the host name "zzzzqqqq.example" ...
client = QuicConnection(configuration=client_config(server_name="zzzzqqqq.example"))
client.connect(SERVER_ADDR, now=now)
hello = client._crypto_streams[tls.Epoch.INITIAL].sender._buffer  # serialized ClientHello handed to the crypto stream
hello = bytes(hello)
assert b"zzzzqqqq.example" in hello
# ... in which one byte of the host name is replaced by 0xff
hostile = hello.replace(b"zzzzqqqq.example", b"zzzz\xffqqq.example")
odcid = client.original_destination_connection_id
server = QuicConnection(configuration=server_config(), original_destination_connection_id=odcid)
datagram = initial_packet(dcid=odcid, scid=client.host_cid, odcid=odcid, version=client._version, from_client=True, crypto_payload=hostile)
guarded("server.receive_datagram(ClientHello with non-ASCII server_name)", server.receive_datagram, datagram, CLIENT_ADDR, now)
ev = run_until_terminated(server, now, "server")
if not (0x100 <= ev.error_code <= 0x1FF):
    fail("closed with 0x%x instead of a CRYPTO_ERROR" % ev.error_code)
print("PASS")
