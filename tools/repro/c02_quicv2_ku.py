"""Native reproduction (C02): key update on QUIC version 2 must derive the next secret with the RFC 9369 label
"quicv2 ku"; an independent HKDF-Expand-Label (built from `cryptography` primitives) is the reference."""
import struct
import sys

from cryptography.hazmat.primitives import hashes
from cryptography.hazmat.primitives.kdf.hkdf import HKDFExpand

from aioquic.quic.crypto import CryptoContext, next_key_phase
from aioquic.quic.packet import QuicProtocolVersion
from aioquic.tls import CipherSuite


def ref_expand_label(secret, label, length):
    full = b"tls13 " + label
    info = struct.pack("!HB", length, len(full)) + full + b"\x00"
    return HKDFExpand(algorithm=hashes.SHA256(), length=length, info=info).derive(secret)


bad = []
for version, label in ((QuicProtocolVersion.VERSION_1, b"quic ku"), (QuicProtocolVersion.VERSION_2, b"quicv2 ku")):
    ctx = CryptoContext()
    secret = bytes(range(32))
    ctx.setup(cipher_suite=CipherSuite.AES_128_GCM_SHA256, secret=secret, version=version)
    nxt = next_key_phase(ctx)
    want = ref_expand_label(secret, label, 32)
    ok = nxt.secret == want
    print("version %#x: next secret %s the RFC derivation with label %r" % (version, "==" if ok else "!=", label))
    if not ok:
        bad.append(hex(version))
if bad:
    print("FAIL: key update secret differs from the RFC 9001/9369 derivation for versions", bad)
    sys.exit(1)
print("PASS")
