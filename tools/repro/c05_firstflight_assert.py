"""C05 finding (pre-authentication, server): `assert header.packet_type == QuicPacketType.INITIAL` in receive_datagram.
A server stays in FIRSTFLIGHT until a packet has been DECRYPTED.  A datagram of >= 1200 bytes whose first packet is an
INITIAL that fails authentication (any on-path attacker / any garbage with an Initial header), coalesced with a 0-RTT
(or Handshake) long-header packet, reaches the assertion with a non-INITIAL packet: AssertionError escapes
receive_datagram (and asyncio's QuicServer.datagram_received).  Expected by C05: the second packet is dropped."""
import os

from aioquic.buffer import Buffer
from aioquic.quic.connection import QuicConnection
from aioquic.quic.packet import QuicProtocolVersion

from c05_common import CLIENT_ADDR, guarded, server_config

odcid = os.urandom(8)
scid = os.urandom(8)
server = QuicConnection(configuration=server_config(), original_destination_connection_id=odcid)

# 1st packet: an Initial packet with a well-formed header and 60 random bytes as "protected" payload -> authentication fails
# (CryptoError) -> dropped; the server stays in FIRSTFLIGHT
def long_header(type_bits, payload):
    buf = Buffer(capacity=256)
    buf.push_uint8(0xC0 | (type_bits << 4))
    buf.push_uint32(QuicProtocolVersion.VERSION_1)
    buf.push_uint8(len(odcid)); buf.push_bytes(odcid)
    buf.push_uint8(len(scid)); buf.push_bytes(scid)
    if type_bits == 0:
        buf.push_uint_var(0)  # token length
    buf.push_uint_var(len(payload))
    buf.push_bytes(payload)
    return buf.data


first = long_header(0, os.urandom(60))
# 2nd packet: 0-RTT long header (type bits 01), same connection IDs, 40 bytes of "protected" payload
second = long_header(1, os.urandom(40))
datagram = first + second
datagram += bytes(max(0, 1200 - len(datagram)))

guarded("server.receive_datagram(bad INITIAL + 0-RTT packet)", server.receive_datagram, datagram, CLIENT_ADDR, 1000.0)
guarded("datagrams_to_send", server.datagrams_to_send, 1000.0)
guarded("get_timer", server.get_timer)
print("PASS")
