# C03 observation (NOT a violation of the property as stated, see contracts/tls_auth.py "#alpn_offered"): run with /venv/bin/python.
# A client accepts, and reports in ProtocolNegotiated, an ALPN protocol in EncryptedExtensions that it never offered
# (RFC 7301 3.1 / RFC 8446 4.2: the selected protocol must be one the client offered).  The misbehaving server is simulated
# by patching push_encrypted_extensions; with two unmodified endpoints the server always selects from the offer (proved:
# Context._server_handle_hello@alpn).
import sys
sys.path.insert(0, "/repo")
from tests.test_connection import client_and_server, CLIENT_ADDR, SERVER_ADDR
from aioquic.quic import events
import aioquic.tls as tls

def run(client_alpn, server_alpn, patch_server_ee=None):
    orig = tls.push_encrypted_extensions
    if patch_server_ee:
        def pe(buf, ext):
            ext.alpn_protocol = patch_server_ee
            return orig(buf, ext)
        tls.push_encrypted_extensions = pe
    try:
        res = {}
        try:
            with client_and_server(client_options={"alpn_protocols": client_alpn}, server_options={"alpn_protocols": server_alpn}) as (client, server):
                for name, c in (("client", client), ("server", server)):
                    evs = []
                    e = c.next_event()
                    while e is not None:
                        evs.append(e); e = c.next_event()
                    res[name] = [(type(e).__name__, getattr(e, "alpn_protocol", None)) for e in evs if isinstance(e, (events.HandshakeCompleted, events.ProtocolNegotiated, events.ConnectionTerminated))]
        except Exception as ex:
            res["exc"] = repr(ex)[:200]
        return res
    finally:
        tls.push_encrypted_extensions = orig

print("client [h3] / server None      :", run(["h3"], None))
print("client None / server [h3]      :", run(None, ["h3"]))
print("client [h3] / server sends 'evil' (not offered):", run(["h3"], ["h3"], patch_server_ee="evil"))
