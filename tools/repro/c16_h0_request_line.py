"""C16 finding: an HTTP/0.9 request line without a space makes H0Connection.handle_event raise ValueError
(`method, path = data.rstrip().split(b" ", 1)`).  Obligation: H0Connection.handle_event:no-escape.ValueError.
usage: PYTHONPATH=<tree>/src /venv/bin/python tools/repro/c16_h0_request_line.py   (FAIL unchanged, PASS with
tools/fixes/c16_h0_request_line.patch)"""
import os
import sys

sys.path.insert(0, os.path.dirname(os.path.abspath(__file__)))
from _c16_common import FakeQuicConnection, run_cases  # noqa

from aioquic.h0.connection import H0Connection  # noqa
from aioquic.h3.events import HeadersReceived  # noqa
from aioquic.quic.events import StreamDataReceived  # noqa


def request(data, end_stream):
    def run():
        h0 = H0Connection(FakeQuicConnection(is_client=False))
        events = h0.handle_event(StreamDataReceived(data=data, end_stream=end_stream, stream_id=0))
        if not any(isinstance(e, HeadersReceived) for e in events):
            return "no HeadersReceived event: %r" % (events,)

    return run


sys.exit(
    run_cases(
        [
            ("well-formed 'GET /'", request(b"GET /\r\n", False)),
            ("no space 'GET'", request(b"GET\r\n", False)),
            ("empty line", request(b"\r\n", False)),
            ("empty with FIN", request(b"", True)),
        ]
    )
)
