from aioquic.quic.configuration import QuicConfiguration
from aioquic.quic.connection import QuicConnection
import os
cfg = QuicConfiguration(is_client=False)
cfg.load_cert_chain("/repo/tests/ssl_cert.pem", "/repo/tests/ssl_key.pem")
c = QuicConnection(configuration=cfg, original_destination_connection_id=b"12345678")
c.receive_datagram(b"\x00garbage"*5, ("1.2.3.4", 1), now=0.0)
print(c.datagrams_to_send(now=0.0))
