"""Native reproduction (C05 / C03: a hostile certificate can only produce tls.Alert): full in-memory handshakes of a client
tls.Context against a server tls.Context that presents a self-made certificate (the attacker owns its key, so the
CertificateVerify signature is VALID and the client goes on to verify_certificate), and hand-made Certificate messages.

  case san_garbage    subjectAltName extension that does not parse -> service_identity reads certificate.extensions:
                      ValueError out of verify_certificate / handle_message                      (before the fix)
  case chain_openssl  an extra chain certificate that `cryptography` parses but OpenSSL refuses (byte flip in the issuer
                      name's string tag) -> OpenSSL.crypto.Error from crypto.X509.from_cryptography
  case bad_version    Certificate message whose entry has X.509 version 4 -> x509.InvalidVersion (not a ValueError) out of
                      _set_peer_certificate
  case bad_spki       Certificate whose SubjectPublicKeyInfo holds an invalid EC point (parsed lazily) + any CertificateVerify
                      -> ValueError / UnsupportedAlgorithm out of _check_certificate_verify_signature (public_key())

exit status 1 if any case raised a non-Alert (unchanged tree); 0 with tools/fixes/c05_tls_nonalert2.patch"""
import datetime
import os
import sys
import warnings

from cryptography import x509
from cryptography.hazmat.primitives import hashes, serialization
from cryptography.hazmat.primitives.asymmetric import ec
from cryptography.x509.oid import ExtensionOID, NameOID

from aioquic import tls
from aioquic.buffer import Buffer
from aioquic.tls import Context

warnings.simplefilter("ignore")
TESTS = os.environ.get("AIOQUIC_TESTS", "/repo/tests")


def buffers():
    return {e: Buffer(capacity=16384) for e in (tls.Epoch.INITIAL, tls.Epoch.HANDSHAKE, tls.Epoch.ONE_RTT)}


def split(data):
    out = []
    while data:
        n = 4 + int.from_bytes(data[1:4], "big")
        out.append(data[:n])
        data = data[n:]
    return out


def message(handshake_type, body):
    return bytes([handshake_type]) + len(body).to_bytes(3, "big") + body


def make_cert(key, extensions=()):
    name = x509.Name([x509.NameAttribute(NameOID.COMMON_NAME, "localhost")])
    now = datetime.datetime.now(datetime.timezone.utc)
    b = (x509.CertificateBuilder().subject_name(name).issuer_name(name).public_key(key.public_key()).serial_number(7)
         .not_valid_before(now - datetime.timedelta(days=1)).not_valid_after(now + datetime.timedelta(days=1)))
    for e in extensions:
        b = b.add_extension(e, critical=False)
    return b.sign(key, hashes.SHA256())


def certificate_message(ders):
    entries = b"".join(len(d).to_bytes(3, "big") + d + (0).to_bytes(2, "big") for d in ders)
    return message(11, b"\x00" + len(entries).to_bytes(3, "big") + entries)


def handshake(server_cert, server_key, chain=()):
    """client (default verify_mode: CERT_REQUIRED) against a server presenting server_cert: returns the client after the
    server's whole flight was fed to it"""
    client = Context(alpn_protocols=["hq-interop"], cafile=os.path.join(TESTS, "pycacert.pem"), is_client=True, server_name="localhost")
    server = Context(alpn_protocols=["hq-interop"], is_client=False)
    server.certificate, server.certificate_private_key, server.certificate_chain = server_cert, server_key, list(chain)
    cb, sb = buffers(), buffers()
    client.handle_message(b"", cb)
    server.handle_message(cb[tls.Epoch.INITIAL].data, sb)
    client.handle_message(sb[tls.Epoch.INITIAL].data, buffers())
    client.handle_message(sb[tls.Epoch.HANDSHAKE].data, buffers())
    return client


def client_after_ee():
    key = ec.generate_private_key(ec.SECP256R1())
    client = Context(alpn_protocols=["hq-interop"], cafile=os.path.join(TESTS, "pycacert.pem"), is_client=True, server_name="localhost")
    server = Context(alpn_protocols=["hq-interop"], is_client=False)
    server.certificate, server.certificate_private_key = make_cert(key), key
    cb, sb = buffers(), buffers()
    client.handle_message(b"", cb)
    server.handle_message(cb[tls.Epoch.INITIAL].data, sb)
    client.handle_message(sb[tls.Epoch.INITIAL].data, buffers())
    client.handle_message(split(sb[tls.Epoch.HANDSHAKE].data)[0], buffers())
    return client


def flipped(der, accept):
    """first single-byte variant of `der` that cryptography still parses and for which accept(cert) holds"""
    for pos in range(len(der)):
        for flip in (0x01, 0x80, 0xFF):
            m = bytearray(der)
            m[pos] ^= flip
            try:
                c = x509.load_der_x509_certificate(bytes(m))
            except Exception:  # noqa
                continue
            if accept(c, bytes(m)):
                return c, bytes(m)
    raise SystemExit("no suitable variant found")


def case_san_garbage():
    key = ec.generate_private_key(ec.SECP256R1())
    cert = make_cert(key, [x509.UnrecognizedExtension(ExtensionOID.SUBJECT_ALTERNATIVE_NAME, b"garbage")])
    handshake(cert, key)


def case_chain_openssl():
    from OpenSSL import crypto

    key = ec.generate_private_key(ec.SECP256R1())
    cert = make_cert(key, [x509.SubjectAlternativeName([x509.DNSName("localhost")])])

    def refused_by_openssl(c, der):
        try:
            crypto.X509.from_cryptography(c)
            return False
        except crypto.Error:
            return True

    extra, _ = flipped(make_cert(ec.generate_private_key(ec.SECP256R1())).public_bytes(serialization.Encoding.DER), refused_by_openssl)
    handshake(cert, key, chain=[extra])


def case_bad_version():
    der = make_cert(ec.generate_private_key(ec.SECP256R1())).public_bytes(serialization.Encoding.DER)
    for pos in range(len(der)):
        m = bytearray(der)
        m[pos] ^= 0x01
        try:
            x509.load_der_x509_certificate(bytes(m))
        except x509.InvalidVersion:
            client_after_ee().handle_message(certificate_message([bytes(m)]), buffers())
            return
        except Exception:  # noqa
            pass
    raise SystemExit("no InvalidVersion variant found")


def case_bad_spki():
    der = make_cert(ec.generate_private_key(ec.SECP256R1())).public_bytes(serialization.Encoding.DER)

    def bad_key(c, d):
        try:
            c.public_key()
            return False
        except Exception:  # noqa  (ValueError or cryptography.exceptions.UnsupportedAlgorithm)
            return True

    _, bad = flipped(der, bad_key)
    client = client_after_ee()
    client.handle_message(certificate_message([bad]), buffers())
    client.handle_message(message(15, (0x0403).to_bytes(2, "big") + (64).to_bytes(2, "big") + bytes(64)), buffers())


CASES = {"san_garbage": case_san_garbage, "chain_openssl": case_chain_openssl, "bad_version": case_bad_version, "bad_spki": case_bad_spki}

if __name__ == "__main__":
    failed = False
    for name in sys.argv[1:] or sorted(CASES):
        try:
            CASES[name]()
            print("case %s: no exception" % name)
        except tls.Alert as exc:
            print("case %s: PASS tls.%s: %s" % (name, type(exc).__name__, exc))
        except Exception as exc:  # noqa
            print("case %s: FAIL handle_message raised %s: %s" % (name, type(exc).__name__, str(exc)[:110]))
            failed = True
    sys.exit(1 if failed else 0)
