"""Helpers shared by the C05 reproduction scripts (tools/repro/c05_*.py).

Run with the library under test on PYTHONPATH, e.g.
    PYTHONPATH=/repo/src /venv/bin/python tools/repro/c05_<name>.py        (unchanged tree: prints FAIL ...)
    PYTHONPATH=<patched copy>/src /venv/bin/python tools/repro/c05_<name>.py  (with tools/fixes/c05_<name>.patch: PASS)
Every script drives real QuicConnection objects through their public API only (receive_datagram, datagrams_to_send,
get_timer, handle_timer, next_event) and reports any exception that escapes one of them."""
import os
import sys
import traceback

from aioquic.quic import events
from aioquic.quic.configuration import QuicConfiguration
from aioquic.quic.connection import QuicConnection
from aioquic.quic.crypto import CryptoPair
from aioquic.quic.packet import QuicFrameType, QuicPacketType
from aioquic.quic.packet_builder import QuicPacketBuilder

TESTS = os.environ.get("AIOQUIC_TESTS", "/repo/tests")
CLIENT_ADDR, SERVER_ADDR = ("1.2.3.4", 1234), ("2.3.4.5", 4433)


def fail(msg):
    print("FAIL " + msg)
    sys.exit(1)


def guarded(what, func, *args, **kwargs):
    try:
        return func(*args, **kwargs)
    except BaseException as exc:  # noqa
        tb = traceback.extract_tb(exc.__traceback__)[-1]
        fail("%s raised %s: %s (at %s:%d)" % (what, type(exc).__name__, exc, os.path.basename(tb.filename), tb.lineno))


def client_config(**kw):
    cc = QuicConfiguration(is_client=True, alpn_protocols=["hq-interop"], **kw)
    cc.load_verify_locations(cafile=os.path.join(TESTS, "pycacert.pem"))
    return cc


def server_config(**kw):
    sc = QuicConfiguration(is_client=False, alpn_protocols=["hq-interop"], **kw)
    sc.load_cert_chain(os.path.join(TESTS, "ssl_cert.pem"), os.path.join(TESTS, "ssl_key.pem"))
    return sc


def pair(client_kw=None, server_kw=None):
    c = QuicConnection(configuration=client_config(**(client_kw or {})))
    s = QuicConnection(configuration=server_config(**(server_kw or {})), original_destination_connection_id=c.original_destination_connection_id)
    c.connect(SERVER_ADDR, now=0.0)
    return c, s


def shuttle(c, s, now, rounds=10):
    for _ in range(rounds):
        moved = False
        for d, _a in c.datagrams_to_send(now=now):
            s.receive_datagram(d, CLIENT_ADDR, now=now)
            moved = True
        for d, _a in s.datagrams_to_send(now=now):
            c.receive_datagram(d, SERVER_ADDR, now=now)
            moved = True
        if not moved:
            break


def handshake(c, s):
    now = 0.0
    for _ in range(6):
        now += 0.01
        shuttle(c, s, now)
    drain(c), drain(s)
    return now


def drain(conn):
    out = []
    while True:
        e = conn.next_event()
        if e is None:
            return out
        out.append(e)


def initial_packet(*, dcid, scid, odcid, version, from_client, crypto_payload, pad_to=1200):
    """a correctly protected INITIAL packet (initial keys are derived from the client's first destination ID, which
    every on-path observer knows) with one CRYPTO frame at offset 0"""
    crypto = CryptoPair()
    crypto.setup_initial(cid=odcid, is_client=from_client, version=version)
    builder = QuicPacketBuilder(host_cid=scid, peer_cid=dcid, version=version, is_client=from_client, max_datagram_size=1200)
    builder.start_packet(QuicPacketType.INITIAL, crypto)
    buf = builder.start_frame(QuicFrameType.CRYPTO, capacity=4 + len(crypto_payload))
    buf.push_uint_var(0)
    buf.push_uint16(len(crypto_payload) | 0x4000)
    buf.push_bytes(crypto_payload)
    datagrams, _ = builder.flush()
    assert len(datagrams) == 1
    d = datagrams[0]
    return d + bytes(max(0, pad_to - len(d)))


def run_until_terminated(conn, now, what="connection"):
    """the API keeps returning normally until termination is reported; returns the ConnectionTerminated event"""
    terminated = None
    for _ in range(60):
        guarded("datagrams_to_send", conn.datagrams_to_send, now)
        timer = guarded("get_timer", conn.get_timer)
        while True:
            ev = guarded("next_event", conn.next_event)
            if ev is None:
                break
            if isinstance(ev, events.ConnectionTerminated):
                terminated = ev
        if terminated is not None or timer is None:
            break
        now = max(now, timer)
        guarded("handle_timer", conn.handle_timer, now)
    if terminated is None:
        fail("%s never reported termination" % what)
    return terminated
