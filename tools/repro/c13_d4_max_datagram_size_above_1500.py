# D4: max_datagram_size above 1500 is accepted by the configuration, but a full-size packet cannot be protected:
# CryptoError escapes datagrams_to_send
from aioquic.quic.configuration import QuicConfiguration
from aioquic.quic.connection import QuicConnection
from aioquic.quic.packet import pull_quic_header
from aioquic.buffer import Buffer
T = "/repo/tests/"
ccfg = QuicConfiguration(is_client=True); ccfg.verify_mode = 0
scfg = QuicConfiguration(is_client=False, max_datagram_size=1600); scfg.load_cert_chain(T + "ssl_cert.pem", T + "ssl_key.pem")
client = QuicConnection(configuration=ccfg)
client.connect(("1.2.3.4", 4433), now=0.0)
dg = client.datagrams_to_send(now=0.0)
hdr = pull_quic_header(Buffer(data=dg[0][0]), host_cid_length=8)
server = QuicConnection(configuration=scfg, original_destination_connection_id=hdr.destination_cid)
for d, _ in dg:
    server.receive_datagram(d, ("9.9.9.9", 1111), now=0.0)
sid = server.get_next_available_stream_id(is_unidirectional=True)
server.send_stream_data(sid, b"x" * 20000)
try:
    print([len(d) for d, _ in server.datagrams_to_send(now=0.0)])
except Exception as e:
    print(type(e).__name__, e)
# complete the handshake, then send bulk data from the server
def pump(a, b, addr_a, addr_b, now):
    n = 0
    for d, _ in a.datagrams_to_send(now=now):
        b.receive_datagram(d, addr_a, now=now); n += 1
    return n
client2 = QuicConnection(configuration=ccfg)
client2.connect(("1.2.3.4", 4433), now=0.0)
dg = client2.datagrams_to_send(now=0.0)
hdr = pull_quic_header(Buffer(data=dg[0][0]), host_cid_length=8)
server2 = QuicConnection(configuration=scfg, original_destination_connection_id=hdr.destination_cid)
for d, _ in dg: server2.receive_datagram(d, ("9.9.9.9", 1111), now=0.0)
try:
    for i in range(6):
        pump(server2, client2, ("1.2.3.4", 4433), None, 0.1 * i); pump(client2, server2, ("9.9.9.9", 1111), None, 0.1 * i + 0.05)
    print("handshake complete", server2._handshake_complete)
    sid = server2.get_next_available_stream_id(is_unidirectional=True)
    server2.send_stream_data(sid, b"x" * 20000)
    print([len(d) for d, _ in server2.datagrams_to_send(now=1.0)])
except Exception as e:
    print(type(e).__name__, e)
