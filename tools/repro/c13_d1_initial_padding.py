# D1: a client datagram containing an Initial packet shorter than 1200 bytes (congestion budget below 1200)
from aioquic.quic.packet_builder import QuicPacketBuilder
from aioquic.quic.packet import QuicPacketType, QuicFrameType
from aioquic.quic.crypto import CryptoPair
for is_client in (True, False):
    b = QuicPacketBuilder(host_cid=bytes(8), peer_cid=bytes(8), version=1, is_client=is_client, max_datagram_size=1200)
    b.max_flight_bytes = 500          # congestion window nearly exhausted (cwnd - bytes_in_flight = 500)
    c = CryptoPair(); c.setup_initial(bytes(8), is_client=is_client, version=1)
    b.start_packet(QuicPacketType.INITIAL, c)
    buf = b.start_frame(QuicFrameType.CRYPTO, capacity=4)   # ack-eliciting
    buf.push_uint_var(0); buf.push_uint_var(100); buf.push_bytes(bytes(100))
    d, p = b.flush()
    print("is_client", is_client, "datagram lengths", [len(x) for x in d], "ack-eliciting", p[0].is_ack_eliciting, "type", p[0].packet_type)
