# D3: the close branch of datagrams_to_send applies no anti-amplification budget
import os
from aioquic.quic.configuration import QuicConfiguration
from aioquic.quic.connection import QuicConnection
from aioquic.quic.packet import pull_quic_header
from aioquic.buffer import Buffer
T = "/repo/tests/"
ccfg = QuicConfiguration(is_client=True); ccfg.verify_mode = 0
scfg = QuicConfiguration(is_client=False); scfg.load_cert_chain(T + "ssl_cert.pem", T + "ssl_key.pem")
client = QuicConnection(configuration=ccfg)
client.connect(("1.2.3.4", 4433), now=0.0)
c_dgrams = client.datagrams_to_send(now=0.0)
first = c_dgrams[0][0]
hdr = pull_quic_header(Buffer(data=first), host_cid_length=8)
server = QuicConnection(configuration=scfg, original_destination_connection_id=hdr.destination_cid)
recv = 0
for d, _ in c_dgrams:
    server.receive_datagram(d, ("9.9.9.9", 1111), now=0.0); recv += len(d)
sent = sum(len(d) for d, _ in server.datagrams_to_send(now=0.0))
path = server._network_paths[0]
print("received", recv, "sent after first flight", sent, "validated", path.is_validated, "ledger", path.bytes_received, path.bytes_sent)
# 0.5-RTT application data until the budget is used up
t = 0.0
sid = server.get_next_available_stream_id(is_unidirectional=True)
server.send_stream_data(sid, b"x" * 20000)
sent += sum(len(d) for d, _ in server.datagrams_to_send(now=t))
print("after 0.5-RTT data: sent", sent, "limit", 3 * recv, "validated", path.is_validated)
server.close(error_code=0x100, reason_phrase="bye" * 100)
more = server.datagrams_to_send(now=t)
sent += sum(len(d) for d, _ in more)
print("after close(): datagrams", [len(d) for d, _ in more], "total sent", sent, "> 3 * received =", 3 * recv, "->", sent > 3 * recv, "validated", path.is_validated, "ledger sent", path.bytes_sent)
import sys
if sent > 3 * recv:
    print("FAIL: the closing packets exceed three times the bytes received from an unvalidated address")
    sys.exit(1)
print("PASS")
