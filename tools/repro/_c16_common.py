"""Shared helpers of the C16 reproduction scripts (run with /venv/bin/python; PYTHONPATH selects the tree under test)."""
import time

from aioquic.buffer import encode_uint_var
from aioquic.quic.configuration import QuicConfiguration


class FakeQuicConnection:
    """What H3Connection / H0Connection need from the transport (as in tests/test_h3.py)."""

    def __init__(self, is_client, quic_logger=None):
        self.closed = None
        self.configuration = QuicConfiguration(is_client=is_client)
        self.sent = []
        self._next_stream_bidi = 0 if is_client else 1
        self._next_stream_uni = 2 if is_client else 3
        self._quic_logger = quic_logger
        self._remote_max_datagram_frame_size = None

    def close(self, error_code, reason_phrase=""):
        if self.closed is None:
            self.closed = (error_code, reason_phrase)

    def get_next_available_stream_id(self, is_unidirectional=False):
        if is_unidirectional:
            sid = self._next_stream_uni
            self._next_stream_uni += 4
        else:
            sid = self._next_stream_bidi
            self._next_stream_bidi += 4
        return sid

    def send_stream_data(self, stream_id, data, end_stream=False):
        self.sent.append((stream_id, data, end_stream))


def frame(frame_type, payload):
    return encode_uint_var(frame_type) + encode_uint_var(len(payload)) + payload


def is_h3_code(code):
    return code == 0x33 or 0x100 <= code <= 0x110 or 0x200 <= code <= 0x202


def run_cases(cases):
    """cases: [(name, callable returning None on success or a failure text)]"""
    failed = 0
    for name, fn in cases:
        try:
            why = fn()
        except Exception as exc:  # noqa
            why = "%s escaped: %s" % (type(exc).__name__, exc)
        if why:
            failed += 1
            print("  case %-34s FAIL  %s" % (name, why))
        else:
            print("  case %-34s ok" % name)
    print("FAIL" if failed else "PASS")
    return 1 if failed else 0
