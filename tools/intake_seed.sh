#!/bin/bash
# usage: intake.sh Cxx  -> confirms /tmp/mut/r3-Cxx/SEED/* in parallel and copies confirmed ones to /verif/seeded/Cxx-<n>
P=$1
cd /verif
for d in /tmp/mut/r3-$P/SEED/*/; do
  k=$(basename $d)
  [ -f $d/patch.diff ] || continue
  ( tools/confirm_seed.sh $d $P-r3-$k > /tmp/mut/confirm-$P-$k.log 2>&1 ) &
done
wait
cat /tmp/mut/confirm-$P-*.log
for d in /tmp/mut/r3-$P/SEED/*/; do
  k=$(basename $d)
  if grep -q "^CONFIRMED" /tmp/mut/confirm-$P-$k.log 2>/dev/null; then
    n=1; while [ -e seeded/$P-$n ] || [ -e seeded/retired/$P-$n ]; do n=$((n+1)); done
    mkdir -p seeded/$P-$n
    cp $d/patch.diff $d/demo.py seeded/$P-$n/
    python3 - "$d/meta.json" "seeded/$P-$n/meta.json" "$(cat /tmp/mut/confirm-$P-$k.log)" <<'PY'
import json,sys
try: m=json.load(open(sys.argv[1]))
except Exception as e: m={"meta_error":str(e)}
m["round"]=3
m["confirmed"]=sys.argv[3]
m["confirmed_how"]="tools/confirm_seed.sh: fresh scratch worktree of /repo HEAD under /tmp; demo passes pristine; patch applies; unedited suite passes with the patch; demo fails with the patch; worktree removed"
json.dump(m,open(sys.argv[2],"w"),indent=1)
PY
    echo "kept seeded/$P-$n"
  fi
done
git -C /repo worktree remove --force /tmp/mut/r3-$P >/dev/null 2>&1; rm -rf /tmp/mut/r3-$P
