"""Print the per-property status table (markdown) from engine/props.py and the evidence files of the last run.
usage: python3-vt tools/mkstatus.py > /var/tmp/status.md   (pasted into DESIGN.md §12.6)"""
import json
import os
import sys

ROOT = os.path.dirname(os.path.dirname(os.path.abspath(__file__)))
sys.path.insert(0, ROOT)
from engine import props  # noqa: E402

print("| id | functions under contract | obligations (all discharged) | back ends | bounded stand-ins | wall (quick) | known findings |")
print("|---|---|---|---|---|---|---|")
tot_f = tot_o = 0
for p in sorted(props.PROPS):
    path = os.path.join(ROOT, "evidence", p + ".json")
    if not os.path.exists(path):
        print("| %s | (no evidence) | | | | | |" % p)
        continue
    ev = json.load(open(path))
    c = ev["coverage"]
    fns = c["functions_under_contract"]
    be = c.get("backends") or {}
    bes = ", ".join("%s: %s" % (k, v) for k, v in sorted(be.items()))
    bnd = c.get("bounded_checks") or []
    bn = ", ".join(b.get("name", "?") if isinstance(b, dict) else str(b) for b in bnd) or "-"
    kf = len(c.get("known_findings_matched") or [])
    print("| %s | %d | %d / %d (%s) | %s | %s | %.0f s | %s |" % (p, len(fns), c["discharged"], c["obligations"], c.get("status"), bes, bn, ev.get("wall_s", 0), kf or "-"))
    tot_f += len(fns)
    tot_o += c["discharged"]
print()
print("total: %d function checks (a function shared by several properties is counted once per property), %d obligations discharged" % (tot_f, tot_o))
