"""Developer lint: after merging independently developed engine extensions, two methods of the same name in one class
shadow each other silently (the later one wins).  Exit 1 when a class / module of engine/ defines a name twice."""
import ast
import glob
import os
import sys

ROOT = os.path.dirname(os.path.dirname(os.path.abspath(__file__)))
bad = 0
for f in sorted(glob.glob(os.path.join(ROOT, "engine", "**", "*.py"), recursive=True)):
    t = ast.parse(open(f).read())
    for node in ast.walk(t):
        if isinstance(node, (ast.ClassDef, ast.Module)):
            names = {}
            for st in node.body:
                if isinstance(st, (ast.FunctionDef, ast.ClassDef)):
                    if st.name in names:
                        print("DUPLICATE %s: %s.%s at lines %d and %d" % (os.path.relpath(f, ROOT), getattr(node, "name", "<module>"), st.name, names[st.name], st.lineno))
                        bad += 1
                    names[st.name] = st.lineno
print("lint_engine: %d duplicate definition(s)" % bad)
sys.exit(1 if bad else 0)
