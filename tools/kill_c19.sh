#!/bin/bash
# Kill checks for C19 (developer tool): one property-breaking edit at a time on a scratch copy of /repo/src/aioquic under
# /var/tmp, the affected function verified against contracts/asyncio_adapter.py; every edit must come out `refuted` or at
# least not fully discharged (an `undecided` on a changed function is reported as a violation by the driver).
# usage: tools/kill_c19.sh [name-prefix]        (PYVC_JOBS / PYVC_TIMEOUT_MS are set for speed)
cd "$(dirname "$0")/.."
ROOT=$(pwd)
ONLY="$1"
kill_one() {
  name="$1"; rel="$2"; old="$3"; new="$4"; shift 4
  if [ -n "$ONLY" ] && [[ "$name" != $ONLY* ]]; then return; fi
  d=$(mktemp -d /var/tmp/c19kill.XXXXXX); cp -r /repo/src/aioquic $d/aioquic
  python3 - "$d/aioquic/$rel" "$old" "$new" <<'PY'
import sys
p, old, new = sys.argv[1:4]
s = open(p).read()
old = old.encode().decode('unicode_escape'); new = new.encode().decode('unicode_escape')
assert s.count(old) >= 1, "pattern not found: %r" % old
open(p, 'w').write(s.replace(old, new, 1))
PY
  if [ $? -ne 0 ]; then echo "EDIT FAILED $name"; rm -rf $d; return; fi
  for q in "$@"; do
    out=$(PYVC_JOBS=6 PYVC_TIMEOUT_MS=6000 AIOQUIC_SRC=$d/aioquic python3-vt -m engine.pyvc.cli "$q" 2>&1 | grep -v "^     model\|^WARNING")
    r=$(echo "$out" | grep -c "^  refuted"); u=$(echo "$out" | grep -c "^  undecided"); e=$(echo "$out" | grep "^==" | grep -vc "errors=\[\]")
    v="SURVIVED"; [ $((r+u+e)) -gt 0 ] && v="killed"
    echo "$v $name :: $q  refuted=$r undecided=$u errors=$e  first: $(echo "$out" | grep "^  refuted\|^  undecided" | head -1 | awk '{print $2}')"
  done
  rm -rf $d
}
K=kill_one
P=asyncio/protocol.py; S=asyncio/server.py; R=quic/retry.py
QP=asyncio/protocol.py::QuicConnectionProtocol
# 1 set_result without guard: complete the connected waiter but keep holding it (second completion possible)
$K k01_keep_waiter $P '                    self._connected = True\n                    self._connected_waiter = None\n' '                    self._connected = True\n' $QP._process_events
# 2 ping waiters not cleared after abort
$K k02_no_clear $P '                self._ping_waiters.clear()\n' '' $QP._process_events
# 3 ping ack: get instead of pop (waiter stays in the table, completed)
$K k03_get_not_pop $P 'waiter = self._ping_waiters.pop(event.uid, None)' 'waiter = self._ping_waiters.get(event.uid, None)' $QP._process_events
# 4 closed event not set on termination
$K k04_no_closed_set $P '                self._closed.set()\n' '' $QP._process_events
# 5 closed event set on handshake completed
$K k05_closed_on_hs $P '            elif isinstance(event, events.HandshakeCompleted):\n' '            elif isinstance(event, events.HandshakeCompleted):\n                self._closed.set()\n' $QP._process_events
# 6 terminated handler not called
$K k06_no_term_cb $P '                self._connection_terminated_handler()\n' '                pass\n' $QP._process_events
# 7 issued handler gets wrong cid  (retired cid handed to issued handler: use a constant)
$K k07_wrong_cid $P 'self._connection_id_issued_handler(event.connection_id)' 'self._connection_id_issued_handler(b"")' $QP._process_events
# 8 feed_eof dropped
$K k08_no_eof $P '            if event.end_stream:\n                reader.feed_eof()\n' '' $QP.quic_event_received
# 9 feed_data twice
$K k09_feed_twice $P '            reader.feed_data(event.data)\n' '            reader.feed_data(event.data)\n            reader.feed_data(event.data)\n' $QP.quic_event_received
# 10 reader looked up under wrong id
$K k10_wrong_reader $P 'reader = self._stream_readers.get(event.stream_id, None)' 'reader = self._stream_readers.get(0, None)' $QP.quic_event_received
# 11 termination does not feed eof
$K k11_term_no_eof $P '            for reader in self._stream_readers.values():\n                reader.feed_eof()\n' '            pass\n' $QP.quic_event_received
# 12 timer not cancelled before re-arming
$K k12_no_cancel $P '            self._timer.cancel()\n' '' $QP.transmit
# 13 timer_at not recorded
$K k13_no_timer_at $P '        self._timer_at = timer_at\n' '        pass\n' $QP.transmit
# 14 get_timer read before sending
$K k14_timer_before_send $P '        for data, addr in self._quic.datagrams_to_send(now=self._loop.time()):\n            self._transport.sendto(data, addr)\n\n        # re-arm timer\n        timer_at = self._quic.get_timer()\n' '        timer_at = self._quic.get_timer()\n        for data, addr in self._quic.datagrams_to_send(now=self._loop.time()):\n            self._transport.sendto(data, addr)\n' $QP.transmit
# 15 datagram sent to wrong address / dropped
$K k15_skip_send $P '            self._transport.sendto(data, addr)\n' '            pass\n' $QP.transmit
# 16 transmit not called after _handle_timer
$K k16_timer_no_tx $P '        self._quic.handle_timer(now=now)\n        self._process_events()\n        self.transmit()\n' '        self._quic.handle_timer(now=now)\n        self._process_events()\n' $QP._handle_timer
# 17 events not processed after timer
$K k17_timer_no_events $P '        self._quic.handle_timer(now=now)\n        self._process_events()\n' '        self._quic.handle_timer(now=now)\n' $QP._handle_timer
# 18 _handle_timer keeps the handle
$K k18_timer_keep $P '        self._timer = None\n        self._timer_at = None\n        self._quic.handle_timer' '        self._timer_at = None\n        self._quic.handle_timer' $QP._handle_timer
# 19 transmit_soon always schedules
$K k19_soon_always $P '        if self._transmit_task is None:\n' '        if True:\n' $QP._transmit_soon
# 20 transmit_soon never records the handle
$K k20_soon_norecord $P '            self._transmit_task = self._loop.call_soon(self.transmit)' '            self._loop.call_soon(self.transmit)' $QP._transmit_soon
# 21 ping registered under another uid than sent
$K k21_ping_uid $P '        self._quic.send_ping(uid)\n' '        self._quic.send_ping(uid + 1)\n' "$QP.ping@sync"
# 22 ping without transmit
$K k22_ping_no_tx $P '        self._quic.send_ping(uid)\n        self.transmit()\n' '        self._quic.send_ping(uid)\n' "$QP.ping@sync"
# 23 wait_connected overwrites an existing waiter
$K k23_wc_no_assert $P '        assert self._connected_waiter is None, "already awaiting connected"\n' '' "$QP.wait_connected@sync"
# 24 stream adapter writes on the wrong stream
$K k24_wrong_stream $P 'self.protocol._quic.send_stream_data(self.stream_id, data)' 'self.protocol._quic.send_stream_data(self.stream_id + 4, data)' asyncio/protocol.py::QuicStreamAdapter.write
# 25 write without scheduling transmit
$K k25_write_no_tx $P '        self.protocol._quic.send_stream_data(self.stream_id, data)\n        self.protocol._transmit_soon()\n' '        self.protocol._quic.send_stream_data(self.stream_id, data)\n' asyncio/protocol.py::QuicStreamAdapter.write
# 26 write_eof sends fin twice
$K k26_eof_twice $P '        if self._closing:\n            return\n' '' asyncio/protocol.py::QuicStreamAdapter.write_eof
# ---- server
$K k30_term_first $S '                del self._protocols[cid]\n' '                del self._protocols[cid]\n                break\n' asyncio/server.py::QuicServer._connection_terminated
$K k31_term_others $S '            if proto == protocol:\n' '            if True:\n' asyncio/server.py::QuicServer._connection_terminated
$K k32_retired_nodel $S '        del self._protocols[cid]\n\n    def _connection_terminated' '        pass\n\n    def _connection_terminated' asyncio/server.py::QuicServer._connection_id_retired
$K k33_retired_noassert $S '        assert self._protocols[cid] == protocol\n' '' asyncio/server.py::QuicServer._connection_id_retired
$K k34_issued_other $S '        self._protocols[cid] = protocol\n\n    def _connection_id_retired' '        self._protocols[cid + b"x"] = protocol\n\n    def _connection_id_retired' asyncio/server.py::QuicServer._connection_id_issued
$K k35_no_size_check $S '            and len(data) >= SMALLEST_MAX_DATAGRAM_SIZE\n' '' asyncio/server.py::QuicServer.datagram_received
$K k36_token_ignored $S '                    except ValueError:\n                        return\n' '                    except ValueError:\n                        original_destination_connection_id = header.destination_cid\n' asyncio/server.py::QuicServer.datagram_received
$K k37_no_hostcid $S '            self._protocols[connection.host_cid] = protocol\n' '' asyncio/server.py::QuicServer.datagram_received
$K k38_route_scid $S 'protocol = self._protocols.get(header.destination_cid, None)' 'protocol = self._protocols.get(header.source_cid, None)' asyncio/server.py::QuicServer.datagram_received
$K k39_wrong_handler $S '            protocol._connection_terminated_handler = partial(\n                self._connection_terminated, protocol=protocol\n            )\n' '            protocol._connection_terminated_handler = partial(\n                self._connection_id_retired, protocol=protocol\n            )\n' asyncio/server.py::QuicServer.datagram_received
$K k40_vn_creates $S '            and header.packet_type == QuicPacketType.INITIAL\n' '' asyncio/server.py::QuicServer.datagram_received
# ---- retry
$K k50_addr_unchecked $R '        if encoded_addr != encode_address(addr):\n            raise ValueError("Remote address does not match.")\n' '' quic/retry.py::QuicRetryTokenHandler.validate_token
$K k51_ids_swapped $R '        return original_destination_connection_id, retry_source_connection_id' '        return retry_source_connection_id, original_destination_connection_id' quic/retry.py::QuicRetryTokenHandler.validate_token
$K k52_token_no_addr $R '        push_opaque(buf, 1, encode_address(addr))\n' '        push_opaque(buf, 1, b"")\n' quic/retry.py::QuicRetryTokenHandler.create_token
$K k53_port_low_only $R 'bytes([addr[1] >> 8, addr[1] & 0xFF])' 'bytes([addr[1] & 0xFF, addr[1] & 0xFF])' quic/retry.py::encode_address
$K k54_validate_other_addr $S 'self._retry.validate_token(addr, header.token)' 'self._retry.validate_token(("127.0.0.1", addr[1]), header.token)' asyncio/server.py::QuicServer.datagram_received
# ---- more
$K k55_double_timer $P '        if self._timer is None and timer_at is not None:\n' '        if timer_at is not None:\n' $QP.transmit
$K k56_set_twice $P '                    self._connected_waiter = None\n                    waiter.set_result(None)\n            elif' '                    self._connected_waiter = None\n                    waiter.set_result(None)\n                    waiter.set_result(None)\n            elif' $QP._process_events
$K k57_send_wrong_addr $P '            self._transport.sendto(data, addr)\n' '            self._transport.sendto(addr and data, ("0.0.0.0", 0))\n' $QP.transmit
