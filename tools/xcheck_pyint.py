#!/venv/bin/python
"""Cross-check of the TRUSTED stub for int(<bytes>) in contracts/h3_headers.py against CPython.

The stub models int(b) by two uninterpreted functions (py_int_ok, py_int_val) and assumes the grammar facts G1..G4.
This script evaluates exactly those facts on the real int() for every byte string of length <= 4 over a boundary
alphabet and for random longer strings, and also compares int() with an independent statement of the full grammar
    ws* [+-]? digit+ ('_' digit+)* ws*        ws = HT LF VT FF CR SP,   at most 4300 digits
Exit status 0 = no disagreement.   usage: /venv/bin/python tools/xcheck_pyint.py [random-cases]
"""
import itertools
import random
import re
import sys

ALPHA = [0x00, 0x09, 0x0A, 0x0B, 0x0C, 0x0D, 0x20, 0x21, 0x2B, 0x2D, 0x2E, 0x2F, 0x30, 0x31, 0x39, 0x3A, 0x41, 0x5F, 0x61, 0x65, 0x78, 0x7F, 0x80, 0xFF]
WS = b"\t\n\x0b\x0c\r "
GRAMMAR = re.compile(rb"\A[\t\n\x0b\x0c\r ]*[+-]?[0-9]+(?:_[0-9]+)*[\t\n\x0b\x0c\r ]*\Z")


def real(b):
    try:
        return True, int(b)
    except ValueError:
        return False, None


def digit(c):
    return 0x30 <= c <= 0x39


def alpha_ok(c):
    return digit(c) or 0x09 <= c <= 0x0D or c in (0x20, 0x2B, 0x2D, 0x5F)


def check(b):
    ok, val = real(b)
    errs = []
    if ok and len(b) == 0:
        errs.append("G1")
    if len(b) >= 1 and len(b) <= 4300 and all(digit(c) for c in b):
        if not ok or val < 0:
            errs.append("G2")
        if len(b) == 1 and ok and val != b[0] - 0x30:
            errs.append("G2-value")
    if ok and not (any(digit(c) for c in b) and all(alpha_ok(c) for c in b)):
        errs.append("G3")
    if ok and val < 0 and 0x2D not in b:
        errs.append("G4")
    ndigits = sum(1 for c in b if digit(c))
    want = bool(GRAMMAR.match(b)) and ndigits <= 4300
    if want != ok:
        errs.append("full-grammar (expected %s)" % want)
    return errs


def main():
    n_rand = int(sys.argv[1]) if len(sys.argv) > 1 else 200000
    bad = []
    n = 0
    for ln in range(0, 5):
        for t in itertools.product(ALPHA, repeat=ln):
            n += 1
            e = check(bytes(t))
            if e:
                bad.append((bytes(t), e))
    rng = random.Random(0)
    pool = [0x30, 0x31, 0x35, 0x39, 0x5F, 0x2B, 0x2D, 0x20, 0x09, 0x0B, 0x0C, 0x0A, 0x0D, 0x00, 0x61]
    for _ in range(n_rand):
        ln = rng.choice((5, 6, 8, 12, 20))
        b = bytes(rng.choice(pool if rng.random() < 0.9 else ALPHA) for _ in range(ln))
        n += 1
        e = check(b)
        if e:
            bad.append((b, e))
    for b in (b"1" * 4300, b"1" * 4301, b"0" * 5000, b" " * 10 + b"7", b"+" + b"9" * 4300, b"1_" * 2000 + b"1"):
        n += 1
        e = check(b)
        if e:
            bad.append((b[:40], e))
    print("cases=%d disagreements=%d" % (n, len(bad)))
    for b, e in bad[:20]:
        print("  ", b, e)
    return 1 if bad else 0


if __name__ == "__main__":
    sys.exit(main())
