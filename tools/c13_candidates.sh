#!/bin/bash
# C13: the clauses of the property that are REFUTED on the unchanged tree are kept in contract variants
# (PROPS["C13"]["known_candidates"]); this runs them (expected: `refuted` lines) and the native reproductions.
cd "$(dirname "$0")/.."
python3-vt -m engine.pyvc.cli "quic/packet_builder.py::QuicPacketBuilder._flush_current_datagram#rfc_padding" | grep -v "model:" | cut -c1-200
python3-vt tools/vcpar.py "quic/packet_builder.py::QuicPacketBuilder._end_packet#no_overrun" 8 | cut -c1-200
for f in tools/repro/c13_*.py; do echo "--- $f"; /venv/bin/python "$f"; done
