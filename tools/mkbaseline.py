"""Write baseline.json from the evidence files of a CLEAN run on the unchanged tree (run every check first).
Per function: source hash and the obligation names discharged; plus a digest of contracts/ and engine/ so that a stale
baseline (contracts or engine edited afterwards) is ignored by the driver.   usage: python3-vt tools/mkbaseline.py"""
import glob
import json
import os
import sys

ROOT = os.path.dirname(os.path.dirname(os.path.abspath(__file__)))
sys.path.insert(0, ROOT)
from engine.driver import contracts_digest  # noqa: E402

fns = {}
for p in sorted(glob.glob(os.path.join(ROOT, "evidence", "C*.json"))):
    ev = json.load(open(p))
    if ev["coverage"].get("status") != "held":
        print("skipping %s: status %s" % (os.path.basename(p), ev["coverage"].get("status")))
        continue
    for f in ev["coverage"]["functions_under_contract"]:
        if f.get("discharged_names") is None:
            continue
        cur = fns.get(f["function"])
        if cur is None or len(f["discharged_names"]) > len(cur["discharged"]):
            # complete: every obligation generated for the baseline text was discharged (then an obligation that only exists
            # for a changed text - e.g. a no-escape obligation on a path that was infeasible before - counts as one that
            # held for the baseline text)
            fns[f["function"]] = {"sha": f["source_sha256_16"], "discharged": f["discharged_names"], "complete": f.get("obligations") == f.get("discharged")}
json.dump({"contracts_digest": contracts_digest(), "functions": fns}, open(os.path.join(ROOT, "baseline.json"), "w"), indent=0, sort_keys=True)
print("baseline.json: %d functions" % len(fns))
