# Native reproduction: tls.py parsers of KNOWN extension types ignore the declared extension_length.
# A NewSessionTicket whose early_data extension DECLARES length 0 (or 2, or 9) but is followed by 4 bytes is accepted,
# the 4 bytes are read as max_early_data_size: the parser reads past the declared length of the enclosing field.
from aioquic.buffer import Buffer
from aioquic import tls

def nst(ext_declared_len, ext_body):
    ext = (42).to_bytes(2, "big") + ext_declared_len.to_bytes(2, "big") + ext_body      # early_data(42)
    body = (7).to_bytes(4, "big") + (9).to_bytes(4, "big") + b"\x00" + b"\x00\x01T" + len(ext).to_bytes(2, "big") + ext
    return bytes([4]) + len(body).to_bytes(3, "big") + body

for declared in (4, 0, 2, 9):
    data = nst(declared, b"\x00\x00\x10\x00")
    try:
        t = tls.pull_new_session_ticket(Buffer(data=data))
        print("declared extension_length=%d, 4 bytes follow: ACCEPTED max_early_data_size=%r" % (declared, t.max_early_data_size))
    except Exception as e:
        print("declared extension_length=%d: raised %r" % (declared, e))

# ServerHello: supported_versions extension declaring length 0 but carrying 2 bytes
def sh(declared):
    ext = (43).to_bytes(2, "big") + declared.to_bytes(2, "big") + b"\x03\x04"
    body = b"\x03\x03" + bytes(32) + b"\x00" + b"\x13\x01" + b"\x00" + len(ext).to_bytes(2, "big") + ext
    return bytes([2]) + len(body).to_bytes(3, "big") + body
for declared in (2, 0, 7):
    try:
        h = tls.pull_server_hello(Buffer(data=sh(declared)))
        print("ServerHello supported_versions declared length=%d: ACCEPTED supported_version=%#x" % (declared, h.supported_version))
    except Exception as e:
        print("ServerHello declared=%d: raised %r" % (declared, e))
