#!/bin/bash
# Kill check (developer tool, not a registered check): apply one deliberate property-breaking edit
# to a scratch copy of the package (outside /repo and /verif), run the property's check against
# the copy (AIOQUIC_SRC), expect exit 1, remove the copy.   usage: ./selftest.sh [name...]
cd "$(dirname "$0")"
MUTS=(
 "pn_window|C02|quic/packet.py|s/candidate <= expected - half_window/candidate < expected - half_window/"
 "add_adjacent|C12|quic/rangeset.py|s/if stop < r.start:/if stop <= r.start:/"
 "reset_final|C07|quic/stream.py|s/final_size != self._final_size:/final_size > self._final_size:/"
 "frame_beyond_final|C07|quic/stream.py|s/if frame_end > self._final_size:/if frame_end > self._final_size + 1:/"
 "no_offset_clamp|C06|quic/stream.py|s/stop > max_offset:/stop > max_offset + 1:/"
 "highest_offset|C06|quic/stream.py|s/if stop > self.highest_offset:/if stop > self.highest_offset + 1:/"
 "reno_floor|C08|quic/congestion/reno.py|s/K_MINIMUM_WINDOW \* self._max_datagram_size/self._max_datagram_size/"
 "cubic_floor|C08|quic/congestion/cubic.py|s/K_MINIMUM_WINDOW \* self._max_datagram_size/self._max_datagram_size/g"
 "h3_space|C15|h3/connection.py|s/if c <= 0x20 or/if c < 0x20 or/"
 "h3_trailing_ws|C15|h3/connection.py|s/if len(value) > 1:/if len(value) > 2:/"
 "varint_size|C17|buffer.py|s/elif value <= 0x3FFF:/elif value <= 0x7FFF:/"
 "subtract_bounded|C10|quic/rangeset.py|s/if start <= r.start and stop >= r.stop:/if start <= r.start and stop > r.stop:/"
 "write_pending|C10|quic/stream.py|s/self._pending.add(self._buffer_stop, self._buffer_stop + size)/self._pending.add(self._buffer_stop, self._buffer_stop + size + 1)/"
)
fail=0
for m in "${MUTS[@]}"; do
  IFS='|' read -r name prop file expr <<<"$m"
  if [ $# -gt 0 ] && [[ ! " $* " =~ " $name " ]]; then continue; fi
  d=$(mktemp -d /var/tmp/verif-mut.XXXXXX)
  cp -r /repo/src/aioquic "$d/aioquic"
  sed -i "$expr" "$d/aioquic/$file"
  if diff -q "/repo/src/aioquic/$file" "$d/aioquic/$file" >/dev/null; then echo "SELFTEST $name: MUTATION DID NOT APPLY"; fail=1; rm -rf "$d"; continue; fi
  out=$(AIOQUIC_SRC="$d/aioquic" VERIF_EVIDENCE_DIR="$d/evidence" ./check "$prop" 2>&1); rc=$?
  rm -rf "$d"
  if [ $rc -eq 1 ]; then echo "SELFTEST $name ($prop): killed -- $(echo "$out" | grep -m1 VIOLATION)"; else echo "SELFTEST $name ($prop): NOT KILLED rc=$rc"; echo "$out" | tail -5; fail=1; fi
done
exit $fail
